"""Rendering annotation / value terms (prefix notation of spec/Typing.tla) as Python source, and
defining classes that carry them in the variants C11 quantifies over."""
from __future__ import annotations

import itertools
import sys
import types

ARITY = {"newtype": 1, "tuplev": 1, "frozenset": 1, "seq": 1, "mapping": 1, "list": 1, "dict": 1, "set": 1,
         "union2": 2, "tuplef2": 2, "union3": 3}
_counter = itertools.count()


def parse(t, i=0):
    """-> (tree, next) with tree = (op, [children])"""
    op = t[i]
    n = ARITY.get(op, 0)
    kids = []
    j = i + 1
    for _ in range(n):
        k, j = parse(t, j)
        kids.append(k)
    return (op, kids), j


class Renderer:
    """renders one term; collects NewType definitions (emitted before the class)"""

    def __init__(self, tag: str, union_style: str, quote_nodes: bool):
        self.tag, self.union_style, self.quote = tag, union_style, quote_nodes
        self.newtypes: list[str] = []

    def node(self, name):
        real = f"{name}{self.tag}"
        return f"'{real}'" if self.quote else real

    def r(self, tree) -> str:
        op, kids = tree
        leaf = {"int": "int", "str": "str", "float": "float", "bool": "bool", "none": "None", "any": "Any",
                "lit": 'Literal["a", 1]', "enum": "Color"}
        if op in leaf:
            return leaf[op]
        if op in ("GN", "GM"):
            return self.node(op)
        a = [self.r(k) for k in kids]
        if op == "newtype":
            nm = f"NT{next(_counter)}"
            self.newtypes.append(f'{nm} = NewType("{nm}", {a[0]})')
            return nm
        if op in ("union2", "union3"):
            if self.union_style == "bar" and not self.quote and all(not x.startswith("'") for x in a) and a[0] != "None":
                return " | ".join(a)
            if op == "union2" and a[1] == "None":
                return f"Optional[{a[0]}]"
            return "Union[" + ", ".join(a) + "]"
        return {"tuplev": f"tuple[{a[0]}, ...]", "tuplef2": f"tuple[{', '.join(a)}]", "frozenset": f"frozenset[{a[0]}]",
                "seq": f"Sequence[{a[0]}]", "mapping": f"Mapping[str, {a[0]}]", "list": f"list[{a[0]}]",
                "dict": f"dict[str, {a[0]}]", "set": f"set[{a[0]}]"}[op]


PRELUDE = '''from dataclasses import dataclass, field
from typing import Any, Literal, Optional, Union, NewType, Sequence, Mapping
from pyoak.node import ASTNode
from harness.pools import Color
'''


def node_defs(tag):
    return (f"@dataclass(frozen=True)\nclass GN{tag}(ASTNode):\n    x: int = 0\n\n"
            f"@dataclass(frozen=True)\nclass GM{tag}(GN{tag}):\n    pass\n\n")


VARIANTS = ["plain", "postponed", "plain-fwd", "postponed-fwd", "newtype", "inherited", "overridden"]


def default_for(t) -> str:
    """a default value the accessors can live with if the field turns out to be a child field"""
    i = 0
    while t[i] == "newtype":
        i += 1
    return "()" if t[i] in ("tuplev", "tuplef2") and any(x in ("GN", "GM") for x in t) else "None"


def build(terms: list, variant: str):
    """Define a class whose fields f0..fn carry the given annotation terms, in the given variant.
    -> dict(stage, names | fields) describing what happened (see observe())."""
    tag = f"_{next(_counter)}"
    postponed = variant.startswith("postponed")
    fwd = variant.endswith("-fwd")
    R = Renderer(tag, "bar" if len(tag) % 2 else "typing", quote_nodes=fwd and not postponed)
    anns = []
    for t in terms:
        tree, _ = parse(list(t))
        s = R.r(tree)
        if variant == "newtype":
            nm = f"NW{next(_counter)}"
            R.newtypes.append(f'{nm} = NewType("{nm}", {s})')
            s = nm
        anns.append(s)
    src = ("from __future__ import annotations\n" if postponed else "") + PRELUDE + "\n"
    nodes = node_defs(tag)
    if not fwd:
        src += nodes
    src += "\n".join(R.newtypes) + "\n\n"
    body = "\n".join(f"    f{i}: {a} = {default_for(list(t))}" for i, (a, t) in enumerate(zip(anns, terms)))
    if variant in ("inherited", "overridden"):
        src += f"@dataclass(frozen=True)\nclass Base{tag}(ASTNode):\n{body}\n\n"
        src += f"@dataclass(frozen=True)\nclass T{tag}(Base{tag}):\n" + (body if variant == "overridden" else "    extra: int = 0") + "\n\n"
    else:
        src += f"@dataclass(frozen=True)\nclass T{tag}(ASTNode):\n{body}\n\n"
    if fwd:
        src += nodes
    modname = f"verif_c11_gen{tag}"
    m = types.ModuleType(modname)
    m.__file__ = f"<{modname}>"
    sys.modules[modname] = m
    return m, src, f"T{tag}", modname


def _where(e) -> str:
    """marks exceptions raised inside the serialization dependency (not compared, see DESIGN)"""
    import traceback
    frames = traceback.extract_tb(e.__traceback__)
    return "[mashumaro] " if any("/mashumaro/" in f.filename for f in frames) else ""


def observe(terms: list, variant: str) -> dict:
    """-> {"stage": "definition" | "instantiation" | "ok" | "other", "rejected": [field indices],
           "kinds": {index: "child" | "prop"}, "error": text}"""
    from pyoak.error import InvalidFieldAnnotations
    m, src, cname, modname = build(terms, variant)
    out = {"stage": "ok", "rejected": [], "kinds": {}, "error": "", "source": src}

    def names(e):
        return sorted(int(n[1:]) for n, _, _ in e.invalid_annotations if n.startswith("f") and n[1:].isdigit())
    try:
        try:
            exec(compile(src, m.__file__, "exec", dont_inherit=True), m.__dict__)
        except InvalidFieldAnnotations as e:
            out.update(stage="definition", rejected=names(e))
            return out
        except Exception as e:
            out.update(stage="other", error=f"definition: {_where(e)}{type(e).__module__}.{type(e).__name__}: {e}"[:300])
            return out
        cls = m.__dict__[cname]
        try:
            inst = cls()
        except InvalidFieldAnnotations as e:
            out.update(stage="instantiation", rejected=names(e))
            return out
        except Exception as e:
            out.update(stage="other", error=f"instantiation: {_where(e)}{type(e).__module__}.{type(e).__name__}: {e}"[:300])
            return out
        childs = {f.name for f in cls.get_child_fields()}
        props = {f.name for f in cls.get_property_fields()}
        for i in range(len(terms)):
            n = f"f{i}"
            out["kinds"][i] = "child" if n in childs and n not in props else "prop" if n in props and n not in childs else \
                ("both" if n in childs else "neither")
        return out
    finally:
        sys.modules.pop(modname, None)


def make_class(terms: list, variant: str = "plain"):
    """class with required fields f0..fn (no defaults) -> (cls, env) ; env: Color, gn, gm instances"""
    tag = f"_{next(_counter)}"
    R = Renderer(tag, "bar" if len(tag) % 2 else "typing", quote_nodes=False)
    anns = [R.r(parse(list(t))[0]) for t in terms]
    src = ("from __future__ import annotations\n" if variant == "postponed" else "") + PRELUDE + "\n" + node_defs(tag)
    src += "\n".join(R.newtypes) + "\n\n"
    src += f"@dataclass(frozen=True)\nclass T{tag}(ASTNode):\n" + "\n".join(f"    f{i}: {a}" for i, a in enumerate(anns)) + "\n"
    modname = f"verif_c13_gen{tag}"
    m = types.ModuleType(modname)
    m.__file__ = f"<{modname}>"
    sys.modules[modname] = m
    try:
        exec(compile(src, m.__file__, "exec", dont_inherit=True), m.__dict__)
    finally:
        sys.modules.pop(modname, None)
    env = {"Color": m.__dict__["Color"], "gn": m.__dict__[f"GN{tag}"](1), "gm": m.__dict__[f"GM{tag}"](2)}
    return m.__dict__[f"T{tag}"], env, src


# ---- values (C13)

def value(v, env, i=0):
    """value term -> (python value, next)"""
    op = v[i]
    atoms = {"vTrue": True, "vFalse": False, "v0": 0, "v1": 1, "vflt": 1.5, "vstr": "s", "vstra": "a", "vNone": None}
    if op in atoms:
        return atoms[op], i + 1
    if op == "vRed":
        return env["Color"].RED, i + 1
    if op == "vgn":
        return env["gn"], i + 1
    if op == "vgm":
        return env["gm"], i + 1
    if op == "tup0":
        return (), i + 1
    if op in ("tup1", "lst1", "fs1"):
        x, j = value(v, env, i + 1)
        return ((x,) if op == "tup1" else [x] if op == "lst1" else frozenset([x])), j
    x, j = value(v, env, i + 1)
    y, k = value(v, env, j)
    if op == "tup3":
        z, k2 = value(v, env, k)
        return (x, y, z), k2
    return (x, y), k
