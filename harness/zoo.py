"""Node-model zoos: one table, two renderings (Python dataclasses and a TLA+ module `Zoo`).

A zoo is a list of classes; each class has a single base (another zoo class or "ASTNode") and an
ordered list of *own* fields.  Field kinds:

  prop    - a property (never a node)
  one     - required single child
  opt     - optional single child (None allowed)
  tuple   - variadic tuple of children
  ftuple  - fixed-length tuple of children (len(allowed) elements, `allowed` is then a list of lists)

The expected behaviour (alpha, oracles) is always derived from this table, never from pyoak's own
introspection helpers.
"""
from __future__ import annotations

import sys
import types
from typing import Any

# --------------------------------------------------------------------------------------------
# tables


def P(n, ann, pool, default=None, compare=True, init=True, kw_only=False, derived=False):
    return dict(n=n, kind="prop", ann=ann, pool=pool, default=default, compare=compare, init=init,
                kw_only=kw_only, derived=derived)


def C(n, kind, allowed, ann, default=None):
    return dict(n=n, kind=kind, allowed=allowed, ann=ann, default=default, compare=True, init=True,
                kw_only=False)


BASIC = {
    "name": "basic",
    "prefix": "",
    "classes": [
        dict(name="Leaf", base="ASTNode", fields=[
            P("a", "str", "str"),
            P("b", "int", "int", default="0"),
        ]),
        dict(name="SubLeaf", base="Leaf", fields=[
            P("c", "str | None", "optstr", default="None"),
            P("note", "str", "str", default="''", compare=False),
        ]),
        dict(name="Unary", base="ASTNode", fields=[
            C("child", "one", ["ASTNode"], "ASTNode"),
        ]),
        dict(name="Opt", base="ASTNode", fields=[
            C("child", "opt", ["Leaf"], "Leaf | None", default="None"),
            P("tag", "str", "str", default="''"),
        ]),
        dict(name="Bin", base="ASTNode", fields=[
            C("right", "one", ["ASTNode"], "ASTNode"),
            C("left", "opt", ["Leaf", "Unary"], "Leaf | Unary | None", default="None"),
        ]),
        dict(name="Many", base="ASTNode", fields=[
            C("items", "tuple", ["ASTNode"], "tuple[ASTNode, ...]"),
            C("head", "opt", ["Leaf"], "Leaf | None", default="None"),
            P("ninit", "int", "fixed7", default="7", init=False),
        ]),
        dict(name="SubMany", base="Many", fields=[
            C("extra", "tuple", ["Leaf"], "tuple[Leaf, ...]", default="()"),
        ]),
        dict(name="Pair", base="ASTNode", fields=[
            C("pair", "ftuple", [["Leaf"], ["ASTNode"]], "tuple[Leaf, ASTNode]"),
        ]),
        dict(name="Val", base="ASTNode", fields=[
            P("v", "Any", "any"),
            P("w", "Any", "any", default="None", compare=False),
        ]),
        # two string properties: the digest's own separator can be spelled inside the first one
        dict(name="Two", base="ASTNode", fields=[
            P("x", "str", "sepx"),
            P("y", "str", "sepy"),
        ]),
        # every representable property kind (C04)
        dict(name="Rich", base="ASTNode", fields=[
            P("s", "str", "r_s"),
            P("i", "int", "r_i"),
            P("fl", "float", "r_fl"),
            P("bo", "bool", "r_bo"),
            P("os", "str | None", "r_os", default="None"),
            P("e", "Color", "r_e", default="Color.RED"),
            P("pth", "Path", "r_pth", default="Path('a/b')"),
            P("lit", "Literal['a', 'b']", "r_lit", default="'a'"),
            P("tup", "tuple[int, ...]", "r_tup", default="()"),
            P("ftup", "tuple[str, int]", "r_ftup", default="('', 0)"),
            P("nc", "str", "r_s", default="''", compare=False),
            C("kid", "opt", ["ASTNode"], "ASTNode | None", default="None"),
        ]),
        # a user class whose own __post_init__ rejects some values *after* the node was built and registered
        dict(name="Picky", base="ASTNode", fields=[
            P("a", "str", "str"),
            P("note", "str", "picky", default="''", compare=False),
        ], body="def __post_init__(self):\n        super().__post_init__()\n        if self.note == 'boom':\n            raise ValueError('picky')\n"),
        # children that are falsy in a boolean context
        dict(name="FLeaf", base="Leaf", fields=[], body="def __len__(self):\n        return 0\n"),
        dict(name="FUnary", base="Unary", fields=[], body="def __bool__(self):\n        return False\n"),
        # a subclass of a child-less class that adds a child field (per-class caches must not be inherited)
        dict(name="KLeaf", base="Leaf", fields=[C("kid", "opt", ["ASTNode"], "ASTNode | None", default="None")]),
        # a field that is neither an init argument nor comparable, filled in by the class's own __post_init__ from a
        # non-comparable argument before the node is set up (a cache): it must stay out of id and content_id
        dict(name="Cachey", base="ASTNode", special=True, fields=[
            P("a", "str", "str"),
            P("note", "str", "str", default="''", compare=False),
            P("memo", "str", "str", default="''", compare=False, init=False, derived=True),
        ], body="def __post_init__(self):\n        object.__setattr__(self, 'memo', self.note)\n        super().__post_init__()\n"),
        # slotted models ("subclasses may be slotted"): @dataclass(slots=True) builds the class twice
        dict(name="SLeaf", base="ASTNode", slots=True, fields=[P("a", "str", "str")]),
        dict(name="SUnary", base="ASTNode", slots=True, fields=[C("child", "one", ["ASTNode"], "ASTNode")]),
    ],
}

# the same classes with the fields of every class declared in reverse order (C01: declaration order
# must not influence content ids).  Loaded in a second process.
def reordered(zoo: dict) -> dict:
    out = {"name": zoo["name"] + "_reorder", "prefix": zoo["prefix"], "classes": []}
    for c in zoo["classes"]:
        fs = list(reversed(c["fields"]))
        # dataclass rule: no non-default after default -> make everything keyword-only
        fs = [dict(f, kw_only=True) for f in fs]
        out["classes"].append(dict(c, fields=fs))
    return out


# legacy (parent-aware) node model: tuple, list, optional and required child fields
LEGACY = {
    "name": "legacy",
    "prefix": "",
    "classes": [
        dict(name="LLeaf", base="ASTNode", fields=[P("a", "str", "str"), P("b", "int", "int", default="0")]),
        dict(name="LSub", base="LLeaf", fields=[P("c", "str | None", "optstr", default="None")]),
        dict(name="LUnary", base="ASTNode", fields=[C("child", "one", ["ASTNode"], "ASTNode")]),
        dict(name="LOpt", base="ASTNode", fields=[C("child", "opt", ["LLeaf"], "LLeaf | None", default="None"),
                                                    P("tag", "str", "str", default="''")]),
        dict(name="LMany", base="ASTNode", fields=[C("items", "tuple", ["ASTNode"], "tuple[ASTNode, ...]", default="()"),
                                                     C("head", "opt", ["LLeaf"], "LLeaf | None", default="None")]),
        dict(name="LList", base="ASTNode", fields=[C("elems", "list", ["ASTNode"], "list[ASTNode]", default="field(default_factory=list)")]),
    ],
}

ZOOS = {"basic": BASIC, "legacy": LEGACY}

# --------------------------------------------------------------------------------------------
# derived information


class ZooInfo:
    def __init__(self, zoo: dict):
        self.zoo = zoo
        self.name = zoo["name"]
        self.cls = {c["name"]: c for c in zoo["classes"]}
        self.all_order = [c["name"] for c in zoo["classes"]]
        # classes marked special are used only where a profile names them (random generators draw from `order`)
        self.order = [c["name"] for c in zoo["classes"] if not c.get("special")]

    def base(self, c: str) -> str:
        return self.cls[c]["base"]

    def mro(self, c: str) -> list[str]:
        out = []
        while c != "ASTNode":
            out.append(c)
            c = self.base(c)
        out.append("ASTNode")
        return out

    def is_sub(self, c: str, d: str) -> bool:
        return d in self.mro(c)

    def subclasses(self, d: str) -> list[str]:
        return [c for c in self.all_order if self.is_sub(c, d)]

    def fields(self, c: str) -> list[dict]:
        """All user fields in dataclass order: inherited first, an override keeps its original slot."""
        chain = list(reversed(self.mro(c)[:-1]))
        out: list[dict] = []
        for k in chain:
            for f in self.cls[k]["fields"]:
                for i, g in enumerate(out):
                    if g["n"] == f["n"]:
                        out[i] = f
                        break
                else:
                    out.append(f)
        return out

    def child_fields(self, c: str) -> list[dict]:
        return [f for f in self.fields(c) if f["kind"] != "prop"]

    def prop_fields(self, c: str) -> list[dict]:
        return [f for f in self.fields(c) if f["kind"] == "prop"]

    def field(self, c: str, n: str) -> dict:
        for f in self.fields(c):
            if f["n"] == n:
                return f
        raise KeyError((c, n))

    def allowed_classes(self, f: dict, idx: int | None = None) -> list[str]:
        al = f["allowed"][idx] if f["kind"] == "ftuple" else f["allowed"]
        out = []
        for a in al:
            if a == "ASTNode":
                out.extend(self.all_order)
            else:
                out.extend(self.subclasses(a))
        seen = []
        for o in out:
            if o not in seen:
                seen.append(o)
        return seen


# --------------------------------------------------------------------------------------------
# Python rendering


def render_py(zoo: dict, legacy: bool = False, postponed: bool = True) -> str:
    lines = []
    if postponed:
        lines.append("from __future__ import annotations")
    lines += [
        "from dataclasses import dataclass, field",
        "from typing import Any, Literal",
        "from pathlib import Path",
        "from harness.pools import Color, IColor",
    ]
    if legacy:
        lines.append("from pyoak.legacy.node import AwareASTNode as ASTNode")
    else:
        lines.append("from pyoak.node import ASTNode")
    lines.append("")
    pre = zoo.get("prefix", "")
    for c in zoo["classes"]:
        base = c["base"] if c["base"] == "ASTNode" else pre + c["base"]
        deco = "@dataclass" if legacy else ("@dataclass(frozen=True, slots=True)" if c.get("slots") else "@dataclass(frozen=True)")
        lines.append(deco)
        lines.append(f"class {pre}{c['name']}({base}):")
        body = []
        for f in c["fields"]:
            ann = f["ann"]
            args = []
            if f["default"] is not None:
                args.append(f"default={f['default']}")
            if not f["compare"]:
                args.append("compare=False")
            if not f["init"]:
                args.append("init=False")
            if f["kw_only"]:
                args.append("kw_only=True")
            if f["default"] is not None and f["default"].startswith("field("):
                body.append(f"    {f['n']}: {ann} = {f['default']}")
            elif not args:
                body.append(f"    {f['n']}: {ann}")
            elif len(args) == 1 and args[0].startswith("default="):
                body.append(f"    {f['n']}: {ann} = {f['default']}")
            else:
                body.append(f"    {f['n']}: {ann} = field({', '.join(args)})")
        if c.get("body"):
            body.append("    " + c["body"])
        if not body:
            body.append("    pass")
        lines += body
        lines.append("")
    return "\n".join(lines)


_loaded: dict[str, types.ModuleType] = {}


def load_py(zoo: dict, legacy: bool = False, modname: str | None = None) -> types.ModuleType:
    """exec the rendered classes in a real module (so get_type_hints / inspect.getmodule work)."""
    modname = modname or ("verif_zoo_" + zoo["name"] + ("_legacy" if legacy else ""))
    if modname in _loaded:
        return _loaded[modname]
    mod = types.ModuleType(modname)
    mod.__file__ = f"<{modname}>"
    sys.modules[modname] = mod
    src = render_py(zoo, legacy=legacy)
    exec(compile(src, mod.__file__, "exec"), mod.__dict__)
    mod.__source__ = src
    _loaded[modname] = mod
    return mod


# --------------------------------------------------------------------------------------------
# TLA+ rendering


def _tla_str(s: str) -> str:
    return '"' + s + '"'


def _tla_seq(xs) -> str:
    return "<<" + ", ".join(xs) + ">>"


def _tla_set(xs) -> str:
    return "{" + ", ".join(xs) + "}"


def _tla_rec(pairs) -> str:
    """Function from strings; works for empty too."""
    pairs = list(pairs)
    if not pairs:
        return "<<>>"
    return "(" + " @@ ".join(f"{_tla_str(k)} :> {v}" for k, v in pairs) + ")"


def render_tla(zoo: dict, module: str = "Zoo", classes: list[str] | None = None, poolset: str = "plain") -> str:
    zi = ZooInfo(zoo)
    order = classes or zi.all_order
    L = [f"---- MODULE {module} ----",
         f"\\* GENERATED from the zoo table `{zoo['name']}` by harness/zoo.py -- do not edit",
         "EXTENDS TLC, Sequences, Naturals", ""]
    L.append("Classes == " + _tla_set(_tla_str(c) for c in order))
    L.append("ClassSeq == " + _tla_seq(_tla_str(c) for c in order))
    L.append("Base == " + _tla_rec((c, _tla_str(zi.base(c))) for c in order))
    L.append("\\* child fields in dataclass order, with kind")
    L.append("ChildFields == " + _tla_rec(
        (c, _tla_seq(_tla_str(f["n"]) for f in zi.child_fields(c))) for c in order))
    L.append("PropFields == " + _tla_rec(
        (c, _tla_seq(_tla_str(f["n"]) for f in zi.prop_fields(c))) for c in order))
    L.append("ChildFieldsSorted == " + _tla_rec(
        (c, _tla_seq(_tla_str(n) for n in sorted(f["n"] for f in zi.child_fields(c)))) for c in order))
    L.append("PropFieldsSorted == " + _tla_rec(
        (c, _tla_seq(_tla_str(n) for n in sorted(f["n"] for f in zi.prop_fields(c)))) for c in order))
    L.append("AllFields == " + _tla_rec(
        (c, _tla_seq(_tla_str(f["n"]) for f in zi.fields(c))) for c in order))
    L.append("Kind == " + _tla_rec(
        (c, _tla_rec((f["n"], _tla_str(f["kind"])) for f in zi.fields(c))) for c in order))
    L.append("Compare == " + _tla_rec(
        (c, _tla_rec((f["n"], "TRUE" if f["compare"] else "FALSE") for f in zi.fields(c)))
        for c in order))
    L.append("IsInit == " + _tla_rec(
        (c, _tla_rec((f["n"], "TRUE" if f["init"] else "FALSE") for f in zi.fields(c)))
        for c in order))
    # allowed classes: for ftuple a sequence of sets, else a set
    def allowed(c, f):
        if f["kind"] == "prop":
            return "{}"
        if f["kind"] == "ftuple":
            return _tla_seq(_tla_set(_tla_str(x) for x in zi.allowed_classes(f, i) if x in order)
                            for i in range(len(f["allowed"])))
        return _tla_set(_tla_str(x) for x in zi.allowed_classes(f) if x in order)
    L.append("Allowed == " + _tla_rec(
        (c, _tla_rec((f["n"], allowed(c, f)) for f in zi.fields(c))) for c in order))
    # property pools (plain pool set): str() of every atom as a sequence of characters, and a type tag --
    # what pattern regexes / variables see (C08)
    from . import pools as _P

    def chars(x):
        out = []
        for ch in str(x):
            out.append('"\\\\"' if ch == "\\" else '"\\""' if ch == '"' else '"' + ch + '"')
        return _tla_seq(out)

    def ttag(x):
        return _tla_str("none" if x is None else type(x).__name__)
    used = sorted({f["pool"] for c in order for f in zi.prop_fields(c)})
    simple = [pl for pl in used if all(isinstance(x, (str, int, type(None))) and str(x).isprintable() and str(x).isascii()
                                       for x in _P.POOLSETS[poolset][pl][:3])]
    L.append("PoolOf == " + _tla_rec(
        (c, _tla_rec((f["n"], _tla_str(f["pool"])) for f in zi.prop_fields(c))) for c in order))
    L.append("SimplePools == " + _tla_set(_tla_str(pl) for pl in simple))
    L.append("PoolStr == " + _tla_rec((pl, _tla_seq(chars(x) for x in _P.POOLSETS[poolset][pl][:3])) for pl in simple))
    L.append("PoolType == " + _tla_rec((pl, _tla_seq(ttag(x) for x in _P.POOLSETS[poolset][pl][:3])) for pl in simple))
    # the atom a property takes when the constructor is called without it (99: the default is not a pool value)
    def default_atom(f):
        if "default" not in f or f.get("default") is None:
            return 0
        try:
            val = eval(f["default"], {})
        except Exception:
            return 99
        pool = _P.POOLSETS[poolset][f["pool"]]
        idx = [j for j, x in enumerate(pool) if type(x) is type(val) and x == val]
        return idx[0] if idx else 99
    L.append("DefaultAtom == " + _tla_rec(
        (c, _tla_rec((f["n"], str(default_atom(f))) for f in zi.prop_fields(c))) for c in order))
    L.append("====")
    return "\n".join(L) + "\n"


if __name__ == "__main__":
    print(render_py(BASIC))
    print(render_tla(BASIC))
