"""Drive the real v2 library along registry-machine events and project its state (alpha)."""
from __future__ import annotations

import dataclasses
import gc
import weakref

from . import pools as P
from .heap import World


class CollideAll:
    """Forces every *id* digest to collide (the extreme of a small ID_DIGEST_SIZE) while leaving
    content digests alone.  The id digest input starts with `Class@origin`, the content digest
    input with `Class` followed by ':' or nothing."""

    def __init__(self, real):
        self._real = real

    def blake2b(self, data=b"", **kw):
        head = data.split(b":", 1)[0]
        if b"@" in head:
            return self._real.blake2b(b"collide", **kw)
        return self._real.blake2b(data, **kw)

    def __getattr__(self, n):
        return getattr(self._real, n)


def install_collide(on: bool):
    import hashlib

    import pyoak.node as N
    N.hashlib = CollideAll(hashlib) if on else hashlib


class Mismatch(Exception):
    def __init__(self, clause, detail):
        super().__init__(clause + ": " + detail)
        self.clause = clause
        self.detail = detail


class RegDriver:
    def __init__(self, W: World, canon: dict | None = None, check_frame: bool = True):
        self.W = W
        self.strong: dict[str, object] = {}
        self.weak: dict[str, weakref.ref] = {}
        self.canon = canon if canon is not None else {}
        self.check_frame = check_frame
        self.frame_errors: list[str] = []
        self.payloads: dict[int, dict] = {}
        self.fmt = "dict"
        from pyoak.node import NODE_REGISTRY, ASTNode
        self.REG = NODE_REGISTRY
        self.ASTNode = ASTNode

    # ---- slot bookkeeping
    def get(self, s: str):
        if s in self.strong:
            return self.strong[s]
        o = self.weak[s]()
        if o is None:
            raise Mismatch("liveness", f"slot {s} is dead but the spec uses it")
        return o

    def put(self, s: str, o, hold=True):
        self.weak[s] = weakref.ref(o)
        if hold:
            self.strong[s] = o

    def name_of(self, o):
        if o is None:
            return "none"
        for s, w in self.weak.items():
            if w() is o:
                return s
        return "?foreign"

    def live(self) -> dict[str, object]:
        out = {}
        for s, w in self.weak.items():
            o = w()
            if o is not None:
                out[s] = o
        return out

    # ---- fingerprints for the frame condition (C10)
    def fingerprints(self) -> dict[str, tuple]:
        """per live node: (object id, [(field, value)], hash).  Compared with `same_fp`."""
        fp = {}
        for s, o in self.live().items():
            fp[s] = (id(o), [(f.name, getattr(o, f.name)) for f in dataclasses.fields(o)], hash(o))
        return fp

    def same_fp(self, a, b) -> str | None:
        if a[0] != b[0]:
            return "object identity"
        if a[2] != b[2]:
            return "hash"
        for (n, x), (_, y) in zip(a[1], b[1]):
            if x is y:
                continue
            # a node-valued (or tuple-of-nodes) field must hold the very same objects; other values may be
            # replaced by an equal value of the same type without counting as a change
            if isinstance(x, self.ASTNode) or isinstance(y, self.ASTNode):
                return f"field {n}"
            if isinstance(x, tuple) and isinstance(y, tuple) and len(x) == len(y) and all(p is q for p, q in zip(x, y)):
                continue
            if type(x) is not type(y) or x != y or any(isinstance(p, self.ASTNode) for p in (x if isinstance(x, tuple) else ())):
                return f"field {n}"
        return None

    # ---- events
    def chg_kwargs(self, src_slot: str, chg) -> dict:
        kind, f, v = chg
        if kind == "none":
            return {}
        src = self.get(src_slot)
        c = self.class_name(src)
        fd = self.W.zi.field(c, f)
        if kind == "prop":
            return {f: self.W.prop_value(c, fd, v)}
        if fd["kind"] in ("tuple", "ftuple"):
            return {f: tuple(self.get(x) for x in v)}
        return {f: None if v == "none" else self.get(v)}

    def class_name(self, o) -> str:
        n = type(o).__name__
        pre = self.W.pre
        return n[len(pre):] if pre and n.startswith(pre) else n

    def class_of(self, o) -> str:
        """the zoo class the object is an instance of -- by identity of the class object, not by its name (a class
        built twice, e.g. by @dataclass(slots=True), has a namesake)"""
        n = self.class_name(o)
        try:
            same = self.W.cls(n) is type(o)
        except AttributeError:
            same = False
        return n if same else "?namesake-of:" + n

    def apply(self, ev: dict):
        before = self.fingerprints() if self.check_frame else None
        op = ev["op"]
        ret = None
        if op == "new":
            r = ev["r"]
            rec = {"c": r["c"], "p": r["p"] if r["p"] != [] else {}, "k": r["k"] if r["k"] != [] else {}, "o": r["o"]}
            objs = _Lookup(self)
            o = self.W.make(rec, objs)
            self.put(ev["res"], o)
        elif op in ("replace", "dcreplace"):
            src = self.get(ev["src"])
            kw = self.chg_kwargs(ev["src"], ev["chg"])
            new = src.replace(**kw) if op == "replace" else dataclasses.replace(src, **kw)
            # unchanged init fields hold the very same objects (C14)
            for f in dataclasses.fields(src):
                if f.init and f.name not in kw and getattr(new, f.name) is not getattr(src, f.name):
                    raise Mismatch(f"{op}-unchanged-field", f"field {f.name} of the new node is not the original's object")
            for k, v in kw.items():
                if getattr(new, k) is not v and getattr(new, k) != v:
                    raise Mismatch(f"{op}-changed-field", f"field {k} does not hold the given value")
            if type(new) is not type(src):
                raise Mismatch(f"{op}-class", "new node has another class")
            self.put(ev["res"], new)
        elif op == "replace_fails":
            src = self.get(ev["src"])
            if ev["why"] == "unknown_field":
                kw = {"no_such_field_": 1}
            elif ev["why"] == "post_init":
                kw = {"note": "boom"}
            else:
                nf = [f for f in dataclasses.fields(src) if not f.init and f.name not in ("id", "content_id")]
                kw = {nf[0].name: 5}
            try:
                src.replace(**kw)
            except Exception:
                pass
            else:
                raise Mismatch("replace-should-raise", f"replace({kw}) did not raise")
        elif op == "new_fails":
            try:
                self.W.cls("Picky")("x", note="boom", origin=self.W.origins[0])
            except ValueError:
                pass
            else:
                raise Mismatch("new-should-raise", "Picky(note='boom') did not raise")
        elif op == "dup":
            src = self.get(ev["src"])
            d = src.duplicate()
            names = list(ev["news"])
            order: list = []
            self._postorder(d, order, set())
            if len(order) != len(names):
                raise Mismatch("dup-structure", f"duplicate has {len(order)} distinct nodes, expected {len(names)}")
            for s, n in zip(names, order):
                self.put(s, n, hold=False)
            self.strong[ev["res"]] = d
            if self.name_of(d) != ev["res"]:
                raise Mismatch("dup-structure", "root of the duplicate is not the last node in post-order")
        elif op == "detach":
            self.get(ev["src"]).detach()
        elif op == "detach_self":
            ret = self.get(ev["src"]).detach_self()
            if ret is not ev["popped"]:
                raise Mismatch("detach_self-result", f"detach_self() returned {ret}, expected {ev['popped']}")
        elif op == "ser":
            o = self.get(ev["src"])
            self.payloads[ev["blob"]] = {"cls": type(o), "dict": o.as_dict(), "json": o.to_json(),
                                         "msgpack": o.to_msgpck(), "yaml": o.to_yaml()}
        elif op == "deser":
            pl = self.payloads[ev["blob"]]
            cls = pl["cls"] if ev.get("via_root_class", True) else self.ASTNode
            if self.fmt == "dict":
                res = cls.as_obj(pl["dict"])
            elif self.fmt == "json":
                res = cls.from_json(pl["json"])
            elif self.fmt == "msgpack":
                res = cls.from_msgpck(pl["msgpack"])
            else:
                res = cls.from_yaml(pl["yaml"])
            names = list(ev["news"])
            order: list = []
            self._postorder_unnamed(res, order, set())
            if len(order) != len(names):
                raise Mismatch("deser-structure", f"deserialization created {len(order)} new nodes, expected {len(names)}")
            for s, n in zip(names, order):
                self.put(s, n, hold=False)
            if self.name_of(res) != ev["res"]:
                raise Mismatch("deser-identity", f"result is {self.name_of(res)}, expected {ev['res']}")
            self.strong[ev["res"]] = res
        elif op == "observe":
            from .observers import observe
            try:
                observe(ev["kind"], self.get(ev["src"]), self.W)
            except AssertionError as ex:
                raise Mismatch("assign-should-raise", str(ex))
        elif op == "forget":
            self.payloads.pop(ev["blob"], None)
        elif op == "dropall":
            self.strong.clear()
        elif op == "drop":
            del self.strong[ev["src"]]
        elif op == "hold":
            self.strong[ev["src"]] = self.get(ev["src"])
        else:
            raise ValueError(op)
        if self.check_frame:
            after = self.fingerprints()
            for s, fp in before.items():
                if s in after:
                    why = self.same_fp(fp, after[s])
                    if why:
                        raise Mismatch("frame-C10", f"{op} changed {why} of the existing node {s}")
        return ret

    def _postorder_unnamed(self, n, order: list, seen: set):
        """new (not yet named) nodes below n, children first; named nodes are not entered"""
        if id(n) in seen or self.name_of(n) != "?foreign":
            return
        seen.add(id(n))
        c = self.class_name(n)
        for f in self.W.zi.child_fields(c):
            v = getattr(n, f["n"])
            for x in (v if isinstance(v, tuple) else ([] if v is None else [v])):
                self._postorder_unnamed(x, order, seen)
        order.append(n)

    def _postorder(self, n, order: list, seen: set):
        c = self.class_name(n)
        for f in self.W.zi.child_fields(c):
            v = getattr(n, f["n"])
            for x in (v if isinstance(v, tuple) else ([] if v is None else [v])):
                self._postorder(x, order, seen)
        if id(n) not in seen:
            seen.add(id(n))
            order.append(n)

    # ---- projection and comparison with the spec's post-state
    def compare(self, post: dict, collide: bool) -> None:
        objs = post["objs"] if post["objs"] != [] else {}
        live = self.live()
        extra = [s for s in live if s not in objs]
        if extra:
            gc.collect()
            live = self.live()
            extra = [s for s in live if s not in objs]
            if extra:
                raise Mismatch("not-collected", f"slots {extra} are unreachable for the program but still alive (kept alive by the library?)")
        for s in objs:
            if s not in live:
                raise Mismatch("liveness", f"slot {s} should be alive")
        held = set(post["held"])
        if held != set(self.strong):
            raise Mismatch("driver", f"held sets differ: {sorted(held)} vs {sorted(self.strong)}")
        reg = set(post["reg"])
        look = post["look"] if post["look"] != [] else {}
        for s, rec in objs.items():
            o = live[s]
            c = self.class_name(o)
            if c != rec["c"] or self.class_of(o) != rec["c"]:
                raise Mismatch("class", f"{s}: {self.class_of(o)} expected {rec['c']}")
            p = rec["p"] if rec["p"] != [] else {}
            for f in self.W.zi.prop_fields(c):
                if f.get("derived"):
                    continue        # filled in by the class itself from another field
                want = self.W.prop_value(c, f, p[f["n"]])
                got = getattr(o, f["n"])
                if type(got) is not type(want) or got != want:
                    raise Mismatch("prop-value", f"{s}.{f['n']} = {got!r}, expected {want!r}")
            k = rec["k"] if rec["k"] != [] else {}
            for f in self.W.zi.child_fields(c):
                v = getattr(o, f["n"])
                if f["kind"] in ("tuple", "ftuple"):
                    got = [self.name_of(x) for x in v]
                    if got != list(k[f["n"]]) or not isinstance(v, tuple):
                        raise Mismatch("child-identity", f"{s}.{f['n']} = {got}, expected {k[f['n']]}")
                else:
                    got = self.name_of(v)
                    if got != k[f["n"]]:
                        raise Mismatch("child-identity", f"{s}.{f['n']} = {got}, expected {k[f['n']]}")
            if o.origin is not self.W.origins[rec["o"]]:
                raise Mismatch("origin", f"{s}: origin object differs")
            isreg = self.REG.get(o.id) is o
            if isreg != (s in reg):
                raise Mismatch("registered", f"{s}: registered={isreg}, expected {s in reg} (det={rec['det']})")
            got = self.name_of(self.ASTNode.get_any(o.id))
            if got != look[s]:
                raise Mismatch("lookup", f"get_any(id of {s}) -> {got}, expected {look[s]}")
            tgt = look[s]
            tcls = objs[tgt]["c"] if tgt != "none" else None
            for cn in self.W.zi.order:
                cls = self.W.cls(cn)
                for strict in (True, False):
                    r = cls.get(o.id, None, strict)
                    if tgt == "none":
                        exp = "none"
                    elif strict:
                        exp = tgt if tcls == cn else "none"
                    else:
                        exp = tgt if self.W.zi.is_sub(tcls, cn) else "none"
                    if self.name_of(r) != exp:
                        raise Mismatch("get-by-class", f"{cn}.get(id of {s}, strict={strict}) -> {self.name_of(r)}, expected {exp}")
        same = {tuple(x) for x in post["sameid"]}
        ss = sorted(objs)
        for a in ss:
            for b in ss:
                if a != b and (live[a].id == live[b].id) != ((a, b) in same):
                    raise Mismatch("id-partition", f"id({a}) == id({b}) is {live[a].id == live[b].id}, expected {(a, b) in same}")
        return None

    def check_canon(self, post: dict, ret: dict):
        if post.get("canon"):
            key = post["canon"][0]
            rid = self.get(ret["res"]).id
            if key in self.canon and self.canon[key] != rid:
                raise Mismatch("id-deterministic", f"node created while no registered node shares its id key got id {rid}, earlier {self.canon[key]}")
            self.canon[key] = rid


class _Lookup(dict):
    """objs mapping handed to World.make: resolves slots through the driver."""

    def __init__(self, drv: RegDriver):
        super().__init__()
        self.drv = drv

    def __getitem__(self, s):
        return self.drv.get(s)


def replay_behaviour(W: World, beh: dict, canon: dict, collide: bool, fmt: str = "dict"):
    """Replay one exported behaviour; raises Mismatch."""
    drv = RegDriver(W, canon)
    drv.fmt = fmt
    steps = beh["steps"] if beh["steps"] != [] else []
    try:
        for i, ev in enumerate(steps):
            drv.apply(ev)
        drv.compare(beh["post"], collide)
        if not collide:
            drv.check_canon(beh["post"], beh["ret"])
    finally:
        drv.strong.clear()
        drv.weak.clear()
        drv.payloads.clear()
