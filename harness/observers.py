"""Read-only public operations of pyoak, exercised for the frame condition C10: none of them may
change any existing node (fields, id, content_id, hash) nor the registry."""
from __future__ import annotations

import dataclasses


def observe(kind: str, o, W) -> None:
    from pyoak.match.pattern import MultiPatternMatcher, NodeMatcher
    from pyoak.match.xpath import ASTXpath
    from pyoak.node import ASTNode
    from pyoak.tree import Tree
    from pyoak.visitor import ASTTransformVisitor, ASTVisitor

    if kind == "traverse":
        list(o.dfs())
        list(o.dfs(bottom_up=True, prune=lambda ni: isinstance(ni.node, W.cls("Leaf")), filter=lambda ni: True))
        list(o.bfs(filter=lambda ni: False))
        list(o.gather(W.cls("Leaf")))
        list(o.gather((W.cls("Leaf"), W.cls("Unary")), exact_type=True))
        o.children
    elif kind == "tree":
        t = Tree(o)
        for ni in o.dfs():
            t.get_parent(ni.node), t.get_parent_info(ni.node), list(t.get_ancestors(ni.node)), t.get_depth(ni.node)
            t.get_xpath(ni.node), t.is_ancestor(ni.node, o), t.is_in_tree(ni.node), t.is_root(ni.node)
            t.get_first_ancestor_of_type(ni.node, type(o))
        o.to_tree().get_depth(o)
    elif kind == "xpath":
        for xp in ("//Leaf", "/Unary/@child Leaf", "//@items[0] Leaf", "//Many//Leaf", "Leaf"):
            x = ASTXpath(xp)
            res = list(x.findall(o))
            o.find(xp)
            list(o.findall(xp))
            for n in res:
                x.match(o, n)
            x.match(o, o)
    elif kind == "pattern":
        for pt in ('(Leaf @a="x" -> v)', "(Unary @child=(Leaf @a -> q))", "(Many @items=[(Leaf) *] -> s)", "(* @origin)",
                   "(Leaf | Unary)"):
            m, _ = NodeMatcher.from_pattern(pt)
            m.match(o)
        MultiPatternMatcher([("r1", "(Leaf @a -> v)"), ("r2", "(Unary @child -> c)")]).match(o)
    elif kind == "visit":
        class V(ASTVisitor[int]):
            def generic_visit(self, node):
                return 1 + sum(self.visit(c) for c in node.get_child_nodes())

            def visit_Leaf(self, node):
                return 1
        V().visit(o)
    elif kind == "transform":
        Leaf = W.cls("Leaf")

        class T1(ASTTransformVisitor):
            pass

        class T2(ASTTransformVisitor):
            def visit_Leaf(self, node):
                return dataclasses.replace(node, b=node.b + 1)

        class T3(ASTTransformVisitor):
            def visit_Leaf(self, node):
                raise RuntimeError("boom")

        T1().transform(o)
        r = T2().transform(o)
        del r
        try:
            T3().transform(o)
        except RuntimeError:
            pass
    elif kind == "compare":
        o == o, o != o, hash(o), o.is_equal(o), o == 1, o.content_id, repr(o), str(o)
        for c in o.get_child_nodes():
            o == c, c.is_equal(o)
    elif kind == "rich":
        o.__rich__()
    elif kind == "accessors":
        for sk in (False, True):
            list(o.get_child_nodes(sort_keys=sk)), list(o.get_child_nodes_with_field(sort_keys=sk))
            list(o.iter_child_fields(sort_keys=sk))
            list(o.get_properties(False, False, False, True, True, sort_keys=sk))
        o.to_properties_dict(), list(type(o).get_property_fields()), type(o).get_child_fields()
    elif kind == "serialize":
        d = o.as_dict()
        type(o).as_obj(d)              # everything registered comes back as the same objects, others die again
        type(o).from_json(o.to_json())
        type(o).from_msgpck(o.to_msgpck())
        type(o).from_yaml(o.to_yaml())
        o.as_dict(serialization_options={"sort_keys": True, "skip_class": True})
    elif kind == "assign":
        for f in dataclasses.fields(o):
            for act in ("set", "del"):
                try:
                    if act == "set":
                        setattr(o, f.name, getattr(o, f.name))
                    else:
                        delattr(o, f.name)
                except Exception:
                    continue
                raise AssertionError(f"{act}attr({type(o).__name__}.{f.name}) did not raise")
        try:
            o.brand_new_attribute = 1
        except Exception:
            pass
        else:
            raise AssertionError("assigning a new attribute did not raise")
    else:
        raise ValueError(kind)
