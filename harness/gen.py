"""Random abstract heaps for the recorders (code -> spec direction): far outside the bounded model."""
from __future__ import annotations

import random

from . import pools as _P
from .zoo import ZooInfo


def _psize(f) -> int:
    if f["pool"] == "picky":
        return 2        # the third value makes the class's own __post_init__ raise (used by the failure actions only)
    return len(_P.POOLSETS["plain"][f["pool"]])


def random_heap(rng: random.Random, zi: ZooInfo, nobj: int, classes: list[str], max_tuple: int = 3,
                share: float = 0.2, natoms: int = 3, norigins: int = 1) -> dict:
    """Bottom-up random heap; prefers not-yet-used slots as children so trees get deep; with
    probability `share` re-uses an already used slot (shared sub-objects)."""
    h: dict = {}
    free: list[str] = []
    for i in range(1, nobj + 1):
        s = f"s{i}"
        cands = list(classes)
        rng.shuffle(cands)
        for c in cands + ["Leaf"]:
            rec = {"c": c, "p": {}, "k": {}, "o": rng.randrange(norigins)}
            ok = True
            used: list[str] = []

            def pick(allowed):
                av = [t for t in h if h[t]["c"] in allowed]
                if not av:
                    return None
                pref = [t for t in av if t in free and t not in used]
                t = rng.choice(pref) if pref and rng.random() >= share else rng.choice(av)
                used.append(t)
                return t

            for f in zi.fields(c):
                n = f["n"]
                if f["kind"] == "prop":
                    rec["p"][n] = 0 if not f["init"] else rng.randrange(min(natoms, _psize(f)))
                elif f["kind"] == "one":
                    t = pick(zi.allowed_classes(f))
                    if t is None:
                        ok = False
                        break
                    rec["k"][n] = t
                elif f["kind"] == "opt":
                    t = pick(zi.allowed_classes(f)) if rng.random() < 0.7 else None
                    rec["k"][n] = t or "none"
                elif f["kind"] in ("tuple", "list"):
                    ln = rng.choice([0, 1, 2, 3, max_tuple])
                    ts = []
                    for _ in range(ln):
                        t = pick(zi.allowed_classes(f))
                        if t is not None:
                            ts.append(t)
                    rec["k"][n] = ts
                else:
                    ts = []
                    for j in range(len(f["allowed"])):
                        t = pick(zi.allowed_classes(f, j))
                        if t is None:
                            ok = False
                            break
                        ts.append(t)
                    if not ok:
                        break
                    rec["k"][n] = ts
            if ok:
                h[s] = rec
                for t in used:
                    if t in free:
                        free.remove(t)
                free.append(s)
                break
    return h


def wide_heap(rng: random.Random, leaf: str, many: str, field: str, unary: str | None = None, width: int = 13) -> dict:
    """a tree with a tuple / list of `width` children (indices beyond 9) and a nested one below element 11"""
    h = {}
    n = 0

    def new(rec):
        nonlocal n
        n += 1
        h[f"s{n}"] = rec
        return f"s{n}"
    inner = [new({"c": leaf, "p": {"a": rng.randrange(3), "b": 0}, "k": {}, "o": 0}) for _ in range(rng.choice([2, 11, 12]))]
    mid = new({"c": many, "p": {}, "k": {field: inner, **({"head": "none"} if field == "items" else {})}, "o": 0})
    outer = [new({"c": leaf, "p": {"a": rng.randrange(3), "b": 0}, "k": {}, "o": 0}) for _ in range(width - 1)]
    pos = rng.choice([1, 10, 11, width - 1])
    outer.insert(pos, mid)
    top = new({"c": many, "p": {}, "k": {field: outer, **({"head": "none"} if field == "items" else {})}, "o": 0})
    if unary and rng.random() < 0.5:
        top = new({"c": unary, "p": {}, "k": {"child": top}, "o": 0})
    return h
