"""Process B of the C04 fresh-process round trip: receives only payload bytes (and, for index-based
sources, the separately serialized sources), deserializes them in an interpreter that has never
seen the original nodes, and writes Trace_Registry lines (init / load / deser with alpha)."""
from __future__ import annotations

import base64
import json
import sys


def main(jobfile: str, outfile: str):
    from . import core
    core.use_repo()
    from . import zoo
    from .heap import World
    from .props.registry import _alpha
    from .regdrive import RegDriver
    from pyoak.origin import SOURCE_OPTIMIZED_SERIALIZATION_KEY, Source

    W = World(zoo.BASIC, "plain")
    jobs = json.load(open(jobfile))
    out = open(outfile, "w")
    import gc
    for job in jobs:
        tid = job["tid"]
        drv = RegDriver(W, {})
        out.write(json.dumps({"tid": tid, "seq": 0, "op": "init", "inj": True}) + "\n")
        out.write(json.dumps({"tid": tid, "seq": 1, "op": "load", "inj": True, "bases": [], "payload": job["payload"],
                              "post": _alpha(drv, W)}) + "\n")
        fmt = job["fmt"]
        cls = W.cls(job["cls"]) if job["via_root_class"] else drv.ASTNode
        data = base64.b64decode(job["data"])
        try:
            if fmt == "dict":
                res = cls.as_obj(json.loads(data))      # a dict payload of JSON-representable values
            elif fmt == "json":
                res = cls.from_json(data)
            elif fmt == "msgpack":
                res = cls.from_msgpck(data)
            elif fmt == "yaml":
                res = cls.from_yaml(data.decode())
            else:   # json with index-based sources
                Source.clear_registry()      # a really fresh source registry: only what the sender shipped
                Source.load_serialized_sources(job["sources"])
                res = cls.from_json(data, serialization_options={SOURCE_OPTIMIZED_SERIALIZATION_KEY: True})
        except Exception as ex:
            out.write(json.dumps({"tid": tid, "seq": 2, "op": "driver-mismatch", "clause": "deser-raised",
                                  "detail": f"{fmt}: {type(ex).__name__}: {ex}", "inj": True, "ev": {"fmt": fmt}}) + "\n")
            continue
        order: list = []
        drv._postorder_unnamed(res, order, set())
        news = [f"n{i + 1}" for i in range(len(order))]
        for s, n in zip(news, order):
            drv.put(s, n, hold=False)
        ev = {"tid": tid, "seq": 2, "op": "deser", "blob": 1, "fmt": fmt, "news": news, "res": drv.name_of(res),
              "bases": [n.id.split("_")[0] for n in order], "cbases": False, "inj": True}
        drv.strong[ev["res"]] = res
        del res, order, n
        gc.collect()
        ev["post"] = _alpha(drv, W)
        out.write(json.dumps(ev) + "\n")
        drv.strong.clear()
        drv.weak.clear()
        gc.collect()
    out.close()


if __name__ == "__main__":
    main(sys.argv[1], sys.argv[2])
