"""Instance modules: constants of a spec module fixed by a Python-side profile."""
from __future__ import annotations


def tla(v) -> str:
    """Python value -> TLA+ expression (sets as python sets/frozensets, tuples/lists as sequences)."""
    if isinstance(v, bool):
        return "TRUE" if v else "FALSE"
    if isinstance(v, int):
        return str(v) if v >= 0 else f"(0 - {-v})"
    if isinstance(v, str):
        if v.startswith("@tla:"):
            return v[5:]
        return '"' + v.replace("\\", "\\\\").replace('"', '\\"') + '"'
    if isinstance(v, (set, frozenset)):
        return "{" + ", ".join(sorted(tla(x) for x in v)) + "}"
    if isinstance(v, (list, tuple)):
        return "<<" + ", ".join(tla(x) for x in v) + ">>"
    if isinstance(v, dict):
        if not v:
            return "<<>>"
        return "(" + " @@ ".join(f"{tla(k)} :> {tla(x)}" for k, x in v.items()) + ")"
    raise TypeError(v)


def prop_atoms_def(name: str, table: dict, default) -> str:
    """table: {(class, field): set of atoms}"""
    body = tla(default)
    for (c, f), st in reversed(list(table.items())):
        body = f'IF <<c, f>> = <<"{c}", "{f}">> THEN {tla(st)} ELSE ({body})'
    return f"{name}(c, f) == {body}"


def instance(name: str, base: str, consts: dict, ops: list[str] | None = None,
             extra_cfg: list[str] | None = None, init="Init", next_="Next",
             invariants: list[str] | None = None, properties: list[str] | None = None,
             constraints: list[str] | None = None, action_constraints: list[str] | None = None,
             symmetry: str | None = None, view: str | None = None, postcondition: str | None = None,
             extends: list[str] | None = None) -> tuple[str, str]:
    """Returns (module text, cfg text).  Every constant becomes a definition `k_<Name>` of the
    instance module and is substituted in the cfg (avoids cfg syntax limits such as negative
    numbers, nested sets)."""
    lines = [f"---- MODULE {name} ----", "EXTENDS " + ", ".join([base] + (extends or [])), ""]
    cfg = []
    for k, v in consts.items():
        if isinstance(v, str) and v.startswith("@op:"):
            # operator constant defined in `ops`
            cfg.append(f"  {k} <- {v[4:]}")
        elif isinstance(v, str) and v.startswith("@mv:"):
            # model values: "@mv:a,b,c" -> a set of model values
            cfg.append(f"  {k} = {{{v[4:]}}}")
        else:
            lines.append(f"k_{k} == {tla(v)}")
            cfg.append(f"  {k} <- k_{k}")
    for o in ops or []:
        lines.append(o)
    lines.append("====")
    c = ["CONSTANTS"] + cfg if cfg else []
    c += [f"INIT {init}", f"NEXT {next_}"]
    for i in invariants or []:
        c.append(f"INVARIANT {i}")
    for p in properties or []:
        c.append(f"PROPERTY {p}")
    for x in constraints or []:
        c.append(f"CONSTRAINT {x}")
    for x in action_constraints or []:
        c.append(f"ACTION_CONSTRAINT {x}")
    if symmetry:
        c.append(f"SYMMETRY {symmetry}")
    if view:
        c.append(f"VIEW {view}")
    if postcondition:
        c.append(f"POSTCONDITION {postcondition}")
    c += extra_cfg or []
    return "\n".join(lines) + "\n", "\n".join(c) + "\n"
