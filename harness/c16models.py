"""Node model for C16: a chain of nodes each carrying a property whose (de)serialization can be made to fail."""
from __future__ import annotations

import sys
import types

SRC = '''
from __future__ import annotations
from dataclasses import dataclass, field
from typing import Any
from mashumaro.types import SerializableType
from pyoak.node import ASTNode


class Bomb(SerializableType):
    """a property value whose serialization raises when armed"""
    armed = False

    def __init__(self, tag: str = "b"):
        self.tag = tag

    def _serialize(self):
        if Bomb.armed == self.tag:
            raise RuntimeError("boom while serializing " + self.tag)
        return {"bomb": self.tag}

    @classmethod
    def _deserialize(cls, value):
        if value.get("boom"):
            raise RuntimeError("boom while deserializing")
        return cls(value["bomb"])

    def __repr__(self):
        return f"Bomb({self.tag})"

    def __eq__(self, other):
        return isinstance(other, Bomb) and other.tag == self.tag

    def __hash__(self):
        return hash(self.tag)


@dataclass(frozen=True)
class BLeaf(ASTNode):
    name: str
    num: int = 5
    Zed: int = 1        # a key that sorts before the type tag "__type" (upper case < "_")


@dataclass(frozen=True)
class BNode(ASTNode):
    tag: str
    bomb: Bomb
    num: int = 7
    kid: ASTNode | None = None
    items: tuple[ASTNode, ...] = ()
    Alpha: str = "a"    # as Zed above
'''


def load():
    name = "verif_c16_models"
    if name in sys.modules:
        return sys.modules[name]
    mod = types.ModuleType(name)
    mod.__file__ = "<" + name + ">"
    sys.modules[name] = mod
    exec(compile(SRC, mod.__file__, "exec"), mod.__dict__)
    return mod
