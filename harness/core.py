"""Shared check machinery: context, violations, known findings, evidence, parallel replay."""
from __future__ import annotations

import hashlib
import json
import multiprocessing as mp
import os
import shutil
import sys
import time
import traceback
from pathlib import Path

from . import tlc

VERIF = Path(__file__).resolve().parent.parent
REPO = Path(os.environ.get("PYOAK_REPO", "/repo"))
EVIDENCE = VERIF / "evidence"
REPLAY_DIR = EVIDENCE / "replay"
NPROC = int(os.environ.get("VERIF_NPROC", "16"))


def use_repo():
    """Make `import pyoak` resolve to the working tree under test."""
    src = str(REPO / "src")
    if src not in sys.path:
        sys.path.insert(0, src)
    os.environ.setdefault("PYOAK_VERIF", "1")


def load_findings() -> list[dict]:
    p = VERIF / "known_findings.json"
    if not p.exists():
        return []
    return json.loads(p.read_text())["findings"]


class Violation:
    def __init__(self, clause: str, case, detail: str = "", finding: str | None = None):
        self.clause = clause
        self.case = case
        self.detail = detail
        self.finding = finding  # id of the known finding that explains it, if any

    def to_json(self):
        return {"clause": self.clause, "case": self.case, "detail": self.detail}


class Check:
    def __init__(self, pid: str, tier: str, seed: int):
        self.pid = pid
        self.tier = tier
        self.seed = seed
        self.t0 = time.time()
        self.wd = tlc.workdir(f"{pid}-{tier}")
        if REPLAY_DIR.exists() and not os.environ.get("VERIF_KEEP_REPLAYS"):
            for old in REPLAY_DIR.glob(f"{pid}-*"):
                old.unlink()
        self.tlc_runs: list[dict] = []
        self.states = 0
        self.transitions = 0
        self.replayed = 0          # spec -> code cases / behaviours executed against the library
        self.traces_accepted = 0   # code -> spec recorded cases accepted by the trace spec
        self.evaluations = 0
        self.nontrivial: set = set()
        self.samples: list = []
        self.violations: list[Violation] = []
        self.known_hits: dict[str, int] = {}
        self.notes: dict = {}
        self.exhaustive = False
        self.rule = ""
        self.assumptions: list[str] = []
        self.bounds: dict = {}
        self.findings = [f for f in load_findings() if f["property"] == pid]
        self.classifier = None  # callable(violation) -> finding id | None

    # ----- TLC bookkeeping
    def note_tlc(self, name: str, r: tlc.TLCResult, kind: str):
        self.tlc_runs.append({"run": name, "kind": kind, "states_generated": r.generated,
                              "distinct_states": r.distinct, "depth": r.depth,
                              "wall_s": round(r.wall_s, 2), "ok": r.ok, "violated": r.violated,
                              "json_cases": len(r.json_raw),
                              "coverage": {k: list(v) for k, v in r.coverage.items()}})
        self.states += r.distinct
        self.transitions += r.generated

    def tlc_violation(self, name: str, r: tlc.TLCResult):
        """A spec-level violation found by TLC (the design itself admits a bad state)."""
        p = REPLAY_DIR / f"{self.pid}-tlc-{name}.txt"
        REPLAY_DIR.mkdir(parents=True, exist_ok=True)
        p.write_text(r.stdout)
        self.violations.append(Violation(f"TLC:{','.join(r.violated)}", {"tlc_run": name, "file": str(p)},
                                         "TLC counterexample"))

    # ----- violations from the binding
    def add(self, v: Violation):
        if self.classifier is not None and v.finding is None:
            v.finding = self.classifier(v)
        self.violations.append(v)

    def sample(self, s, limit=6):
        if len(self.samples) < limit:
            self.samples.append(s)

    # ----- finishing
    def finish(self, level: str = "model_checking") -> int:
        known_ids = {f["id"] for f in self.findings if f.get("status") == "known"}
        new = [v for v in self.violations if v.finding not in known_ids]
        hit = {}
        for v in self.violations:
            if v.finding in known_ids:
                hit[v.finding] = hit.get(v.finding, 0) + 1
        for f in self.findings:
            if f.get("status") == "known" and f["id"] in hit:
                print(f"KNOWN-FINDING: property={self.pid} {f['id']}: {f['what']} (re-observed {hit[f['id']]}x)")
        replay_path = None
        if new:
            REPLAY_DIR.mkdir(parents=True, exist_ok=True)
            # group by clause, write the first few of each
            seen = {}
            for v in new:
                seen.setdefault(v.clause, []).append(v)
            for clause, vs in seen.items():
                v = vs[0]
                hsh = hashlib.sha1(json.dumps(v.to_json(), sort_keys=True, default=str).encode()).hexdigest()[:10]
                path = REPLAY_DIR / f"{self.pid}-{hsh}.json"
                path.write_text(json.dumps({"property": self.pid, "seed": self.seed, "tier": self.tier,
                                            "clause": clause, "case": v.case, "detail": v.detail,
                                            "count": len(vs)}, indent=1, default=str))
                replay_path = replay_path or path
                print(f"VIOLATION property={self.pid} replay={path}")
                print(f"  clause: {clause} ({len(vs)} cases); first: {v.detail[:300]}")
        cov = {
            "states": self.states,
            "transitions": self.transitions,
            "traces_validated_against_impl": self.replayed + self.traces_accepted,
            "replayed_spec_to_code": self.replayed,
            "recorded_code_to_spec_accepted": self.traces_accepted,
            "evaluations": self.evaluations,
            "distinct_nontrivial": len(self.nontrivial),
            "rule": self.rule,
            "samples": self.samples or ["(no case generated)"],
            "exhaustive": self.exhaustive,
            "tlc_runs": self.tlc_runs,
            "bounds": self.bounds,
            "known_findings_reobserved": hit,
        }
        cov.update(self.notes)
        ev = {
            "property_id": self.pid,
            "tier": self.tier,
            "seed": self.seed,
            "level": level,
            "coverage": cov,
            "assumptions": self.assumptions,
            "wall_s": round(time.time() - self.t0, 2),
            "violations": len(new),
        }
        EVIDENCE.mkdir(exist_ok=True)
        if not os.environ.get("VERIF_NO_EVIDENCE"):
            (EVIDENCE / f"{self.pid}.json").write_text(json.dumps(ev, indent=1, default=str))
        shutil.rmtree(self.wd, ignore_errors=True)
        print(f"{self.pid} {self.tier}: states={self.states} transitions={self.transitions} "
              f"replayed={self.replayed} traces_accepted={self.traces_accepted} "
              f"nontrivial={len(self.nontrivial)} violations={len(new)} known={sum(hit.values())} "
              f"wall={ev['wall_s']}s")
        return 1 if new else 0


# ---------------------------------------------------------------------------------------------
# binding canary: a trace specification that accepts everything binds nothing.  Every run corrupts a few of the
# lines it has just recorded (the observed answer only) and requires the trace specification to reject them.

FLIP_KEYS = ("obs", "accepted", "ok", "cid_eq", "iseq_ab", "iseq_ba", "eq_ab", "eq_ba", "ne_ab", "contains", "overlaps")


def _flip(v):
    if isinstance(v, bool):
        return not v
    if isinstance(v, int):
        return v + 1
    if isinstance(v, str):
        return v + "?"
    if isinstance(v, list):
        return v[:-1] if v else ["?x"]
    if isinstance(v, dict):
        return {**v, "?x": 1} if not v else {k: _flip(x) for k, x in v.items()}
    return None


def corrupt_generic(line: dict):
    """the same line with the observed answer changed (None if the line has no field known to hold one)"""
    out = json.loads(json.dumps(line))
    hit = False
    for k in FLIP_KEYS:
        if k in out:
            nv = _flip(out[k])
            if nv is not None:
                out[k] = nv
                hit = True
            if k == "obs":
                break
    return out if hit else None


def canary(chk: "Check", lines: list, validate, corrupt=corrupt_generic, n: int = 24, what: str = "trace spec",
           skip: set | None = None):
    """corrupt up to n of the recorded lines and have the trace specification judge them; none rejected = the binding
    is vacuous = machinery failure.  `skip`: 1-based numbers of lines that were rejected anyway."""
    skip = skip or set()
    idx = [i for i in range(len(lines)) if (i + 1) not in skip]
    if not idx:
        return
    step = max(1, len(idx) // n)
    bad = [c for c in (corrupt(lines[i]) for i in idx[::step][:n]) if c is not None]
    if not bad:
        return
    rej = validate(chk, bad, name="canary")
    nrej = len(rej)
    chk.notes.setdefault("binding_canary", []).append({"trace_spec": what, "corrupted_lines": len(bad), "rejected": nrej})
    if nrej == 0:
        raise tlc.MachineryError(f"binding canary: {what} accepted all {len(bad)} corrupted lines")


def parallel_iter(func, items: list, arg=None, nproc: int | None = None, chunk: int | None = None):
    """like parallel(), but yields each chunk's result as soon as it is there (in any order), so that the caller can
    merge and drop it: a list of all results can be many times larger than what is kept of them"""
    nproc = nproc or NPROC
    if not items:
        return
    chunk = chunk or max(1, min(500, len(items) // (nproc * 4) + 1))
    chunks = [items[i:i + chunk] for i in range(0, len(items), chunk)]
    if nproc == 1 or len(chunks) == 1:
        for c in chunks:
            st, r = _run_chunk((func, c, arg))
            if st == "err":
                raise tlc.MachineryError("replay worker crashed:\n" + r)
            yield r
        return
    ctx = mp.get_context("fork")
    limit = int(os.environ.get("VERIF_WORKER_TIMEOUT", "5400"))
    with ctx.Pool(min(nproc, len(chunks))) as pool:
        it = pool.imap_unordered(_run_chunk, [(func, c, arg) for c in chunks])
        for _ in chunks:
            try:
                st, r = it.next(timeout=limit)
            except mp.TimeoutError:
                pool.terminate()
                raise tlc.MachineryError(f"replay workers did not finish {func.__name__} in time (a worker died or a call never returned)")
            if st == "err":
                pool.terminate()
                raise tlc.MachineryError("replay worker crashed:\n" + r)
            yield r


def safe(fn, case, *args):
    """Run a per-case check; an exception escaping from the library under test is a violation of the
    case at hand (clause `stray-exception`), not a failure of the machinery."""
    try:
        return fn(*args)
    except MemoryError:
        raise
    except Exception as ex:
        tb = traceback.format_exc()
        inlib = "/src/pyoak/" in tb
        if not inlib:
            raise
        small = case if len(json.dumps(case, default=str)) < 20000 else {"m": case.get("m"), "truncated": True}
        return [("stray-exception", f"{type(ex).__name__}: {ex} -- " + tb.strip().splitlines()[-3][:160], small)]


# ---------------------------------------------------------------------------------------------
# parallel replay: worker functions are module-level callables `f(chunk, arg) -> result`


def _run_chunk(a):
    func, chunk, arg = a
    try:
        return ("ok", func(chunk, arg))
    except Exception:
        return ("err", traceback.format_exc())


def parallel(func, items: list, arg=None, nproc: int | None = None, chunk: int | None = None) -> list:
    """Run func(chunk, arg) over chunks of items in forked workers; returns the list of results."""
    nproc = nproc or NPROC
    if not items:
        return []
    chunk = chunk or max(1, min(500, len(items) // (nproc * 4) + 1))
    chunks = [items[i:i + chunk] for i in range(0, len(items), chunk)]
    if nproc == 1 or len(chunks) == 1:
        res = [_run_chunk((func, c, arg)) for c in chunks]
    else:
        ctx = mp.get_context("fork")
        with ctx.Pool(min(nproc, len(chunks))) as pool:
            # a worker that dies (or never returns: a library call that loops) would make map() wait for ever
            try:
                res = pool.map_async(_run_chunk, [(func, c, arg) for c in chunks]).get(
                    timeout=int(os.environ.get("VERIF_WORKER_TIMEOUT", "5400")))
            except mp.TimeoutError:
                pool.terminate()
                raise tlc.MachineryError(f"replay workers did not finish {func.__name__} in time (a worker died or a call never returned)")
    out = []
    for st, r in res:
        if st == "err":
            raise tlc.MachineryError("replay worker crashed:\n" + r)
        out.append(r)
    return out
