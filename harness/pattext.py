"""Rendering pattern ASTs (the shape of spec/Pattern.tla) as text of the documented pattern grammar."""
from __future__ import annotations

import re


def regex_text(sp: dict) -> str:
    out = ""
    for t in sp["toks"]:
        if t == ".":
            out += "."
        elif t == '"':
            out += '\\"'
        elif t == " ":
            out += " "          # literal blank: significant inside the regex, unlike white space between tokens
        else:
            out += re.escape(t)
    if sp["dollar"]:
        out += "$"
    return '"' + out + '"'


def cap(c: str, sp: str) -> str:
    return f"{sp}->{sp}{c}" if c else ""


def render_spec(sp: dict, prefix: str, ws: str) -> str:
    t = sp["t"]
    if t == "re":
        return regex_text(sp)
    if t == "none":
        return "None"
    if t == "empty":
        return "[]"
    if t == "var":
        return "$" + sp["name"]
    if t == "tree":
        return render(sp, prefix, ws)
    if t == "seq":
        parts = []
        for it in sp["items"]:
            parts.append(render_spec(it["v"], prefix, ws) + (" " + cap(it["cap"], ws).strip() if it["cap"] else ""))
        if sp["tail"]:
            parts.append("*" + (" " + cap(sp["tailcap"], ws).strip() if sp["tailcap"] else ""))
        return "[" + ws + " ".join(parts) + ws + "]"
    raise ValueError(t)


def render(p: dict, prefix: str = "", ws: str = "") -> str:
    """ws: extra whitespace inserted between tokens ('' or ' ' or '  \\n ')."""
    classes = sorted(p["classes"])
    cs = "*" if "*" in classes else (ws + "|" + ws).join(c if c == "ASTNode" else prefix + c for c in classes)
    out = "(" + ws + cs
    for f in (p["fields"] if p["fields"] != [] else []):
        out += " " + ws + "@" + f["name"]
        if f["spec"]["t"] != "any":
            out += ws + "=" + ws + render_spec(f["spec"], prefix, ws)
        if f["cap"]:
            out += " " + ws + "->" + ws + f["cap"]
    return out + ws + ")"
