"""Shared by C03 / C14 / C10 (and C04): the Registry machine -- MC, transition export + replay."""
from __future__ import annotations

import json
import random

from .. import core, inst, tlc, zoo
from ..heap import World
from ..regdrive import Mismatch, RegDriver, install_collide, replay_behaviour

INVARIANTS = ["TypeOK", "RegExact", "IdsUnique", "IdDeterministic", "DupFaithful", "ReplaceFaithful",
              "DcReplaceFaithful", "CKeySound", "RoundTrip"]
PROPERTIES = ["FailFrame", "Immutable", "MembershipFrame"]

ALLOPS = {"new", "replace", "replace_fails", "dcreplace", "dup", "detach", "detach_self", "drop", "hold"}
OBSERVE = ["traverse", "tree", "xpath", "pattern", "visit", "transform", "compare", "rich", "accessors",
           "serialize", "assign"]
SEROPS = {"new", "ser", "deser", "drop", "detach_self", "detach", "hold", "replace"}

# instances: name -> (classes, prop table, nslots, max tuple, origins)
INSTANCES = {
    "leaf-unary-3": (["Leaf", "Unary"], {("Leaf", "a"): {0, 1}}, 3, 1, {0}),
    "many-3": (["Leaf", "Many"], {}, 3, 2, {0}),
    "many1-3": (["Leaf", "Many"], {}, 3, 1, {0}),
    "sub-opt-3": (["Leaf", "SubLeaf", "Opt"], {("SubLeaf", "note"): {0, 1}}, 3, 1, {0}),
    "origins-3": (["Leaf", "Unary"], {}, 3, 1, {0, 1}),
    "full-3": (["Leaf", "Unary", "Many"], {("Leaf", "a"): {0, 1}}, 3, 2, {0}),
    "leaf-unary-4": (["Leaf", "Unary"], {("Leaf", "a"): {0, 1}}, 4, 1, {0}),
    "dup-4": (["Leaf", "Many"], {}, 4, 1, {0}, {"new", "dup", "detach_self", "drop", "replace"}, 6),
    "observe-org-2": (["Leaf", "Unary"], {}, 2, 1, {0, 1}, {"new", "observe", "detach_self", "drop"}, 4),
    "picky-3": (["Picky", "Unary"], {("Picky", "note"): {0, 1}}, 3, 1, {0},
                {"new", "new_fails", "replace", "replace_fails", "dcreplace", "detach_self", "drop", "dup"}, 7),
    "observe-3": (["Leaf", "Unary", "Many"], {}, 3, 1, {0}, {"new", "observe", "detach_self", "detach", "drop", "replace", "dup"}, 5),
    "observe-4": (["Leaf", "SubLeaf", "Unary", "Many"], {}, 4, 2, {0}, {"new", "observe", "detach_self", "drop", "replace"}, 5),
    "ser-3": (["Leaf", "Unary"], {}, 3, 1, {0}, SEROPS),
    "ser-3q": (["Leaf", "Unary"], {}, 3, 1, {0}, {"new", "ser", "deser", "drop", "dropall", "detach_self"}, 7),
    "ser-many-3q": (["Leaf", "Many"], {}, 3, 2, {0}, {"new", "ser", "deser", "drop", "dropall", "detach_self"}, 6),
    "ser-many-4": (["Leaf", "Many"], {}, 4, 2, {0}, {"new", "ser", "deser", "dropall", "detach_self"}, 6),
    "cachey-3": (["Cachey", "Unary"], {("Cachey", "note"): {0, 1}}, 3, 1, {0},
                 {"new", "replace", "dcreplace", "dup", "detach_self", "drop"}, 7),
    "ser-slots-3": (["SLeaf", "SUnary"], {}, 3, 1, {0}, {"new", "ser", "deser", "drop", "dropall", "detach_self"}, 6),
    "ser-4": (["Leaf", "Unary"], {("Leaf", "a"): {0, 1}}, 4, 1, {0}, SEROPS, 8),
    "dup-5": (["Leaf", "Unary", "Many"], {}, 5, 1, {0}, {"new", "dup", "detach_self", "drop"}, 6),
    "many-4": (["Leaf", "Many"], {}, 4, 2, {0}),
}


def make_instance(chk, name, collide, emit, depth=None, condpop=True):
    classes, ptab, nslots, mt, orgs = INSTANCES[name][:5]
    ops_on = INSTANCES[name][5] if len(INSTANCES[name]) > 5 else ALLOPS
    if depth is None:
        depth = INSTANCES[name][6] if len(INSTANCES[name]) > 6 else 40
    mod, cfg = inst.instance(
        "I_Registry", "Gen_Registry",
        dict(Slots="@mv:" + ",".join(f"s{i}" for i in range(1, nslots + 1)), MaxTuple=mt,
             GenClasses=set(classes), Origins=set(orgs), PropAtoms="@op:PA", Collide=collide,
             CondPop=condpop, MaxDepth=depth, Ops=set(ops_on), MaxBlobs=1, ForceTaken=False, ObserveKinds=set(OBSERVE if 'observe' in ops_on else [])),
        ops=[inst.prop_atoms_def("PA", ptab, {0})],
        invariants=INVARIANTS, properties=PROPERTIES, symmetry="Sym", view="view",
        constraints=["Bound"], action_constraints=["EmitAct"] if emit else [])
    (chk.wd / "I_Registry.tla").write_text(mod)
    return cfg


def mc(chk: core.Check, name: str, collide: bool, emit: bool, timeout=3000, coverage=False):
    cfg = make_instance(chk, name, collide, emit)
    r = tlc.run(chk.wd, "I_Registry", cfg, workers=core.NPROC, timeout=timeout, coverage=coverage)
    tlc.require_clean(r, f"Registry/{name}")
    chk.note_tlc(f"Registry/{name}/collide={collide}/{'emit' if emit else 'mc'}", r, "mc+gen" if emit else "mc")
    if r.violated:
        chk.tlc_violation(f"Registry-{name}-{collide}", r)
    return r


def simulate(chk: core.Check, name: str, collide: bool, num: int, depth: int, seed: int):
    """Random behaviours of a larger instance, exported at their last step."""
    cfg = make_instance(chk, name, collide, emit=True, depth=depth)
    r = tlc.run(chk.wd, "I_Registry", cfg, workers=1, timeout=1200, simulate=f"num={num}", depth=depth, seed=seed)
    chk.note_tlc(f"Registry/{name}/collide={collide}/simulate", r, "simulate+gen")
    if r.violated:
        chk.tlc_violation(f"Registry-sim-{name}-{collide}", r)
    return r.json_raw


def _replay(chunk, arg):
    core.use_repo()
    install_collide(arg["collide"])
    W = World(zoo.BASIC, arg["poolset"])
    canon: dict = {}
    viol = []
    pid = arg.get("pid")
    n = 0
    nontriv = set()
    for raw in chunk:
        beh = tlc.decode(raw) if isinstance(raw, str) else raw
        if pid and not op_filter(pid, beh):
            continue
        n += 1
        if len(beh["steps"]) >= 3:
            nontriv.add(hash(raw if isinstance(raw, str) else json.dumps(beh["steps"], sort_keys=True)))
        fmts = ["dict"]
        if any(e["op"] == "deser" for e in beh["steps"]):
            fmts = FORMATS
        for fmt in fmts:
            try:
                replay_behaviour(W, beh, canon, arg["collide"], fmt)
            except Mismatch as m:
                viol.append((m.clause, m.detail, {"m": "registry", "collide": arg["collide"], "poolset": arg["poolset"], "fmt": fmt,
                                                  "steps": beh["steps"], "post": beh["post"], "ret": beh["ret"]}))
    install_collide(False)
    return viol, n, nontriv, (beh["steps"] if n else None)


FORMATS = ["dict", "json", "msgpack", "yaml"]

# which clauses belong to which property
CLAUSES = {
    "C03": {"registered", "lookup", "get-by-class", "id-partition", "id-deterministic", "not-collected", "liveness",
            "detach_self-result", "replace-should-raise", "new-should-raise"},
    "C14": {"dup-structure", "replace-unchanged-field", "dcreplace-unchanged-field", "replace-changed-field",
            "dcreplace-changed-field", "replace-class", "dcreplace-class", "class", "prop-value", "child-identity",
            "origin", "registered", "id-partition", "id-deterministic"},
    "C10": {"frame-C10", "assign-should-raise", "new-should-raise", "replace-should-raise", "registered", "lookup", "id-partition", "not-collected", "liveness",
            "class", "prop-value", "child-identity", "origin"},
    "C04": {"deser-raised", "deser-structure", "deser-identity", "class", "prop-value", "child-identity", "origin", "registered",
            "lookup", "id-partition", "liveness", "not-collected"},
}


def op_filter(pid: str, beh: dict) -> bool:
    if pid == "C14":
        return beh["ret"]["op"] in ("dup", "replace", "dcreplace")
    if pid == "C04":
        return beh["ret"]["op"] == "deser"
    return True


def _absorb(chk, pid, results):
    smp = None
    for viol, n, nontriv, last in results:
        chk.replayed += n
        chk.evaluations += n
        chk.nontrivial |= nontriv
        smp = smp or last
        for clause, detail, case in viol:
            if clause in CLAUSES[pid] or clause == "driver":
                chk.add(core.Violation(clause, case, detail))
    return smp


def run_machine(chk: core.Check, pid: str, quick_instances, thorough_instances, sim_instance):
    quick = chk.tier == "quick"
    names = quick_instances if quick else thorough_instances
    for name in names:
        for collide in (False, True):
            r = mc(chk, name, collide, emit=True)
            chk.bounds[f"{name}/collide={collide}"] = {"slots": INSTANCES[name][2], "classes": INSTANCES[name][0],
                                                       "exhaustive": True, "transitions_exported": len(r.json_raw)}
            smp = _absorb(chk, pid, core.parallel(_replay, r.json_raw, {"collide": collide, "poolset": "plain", "pid": pid}, chunk=2000))
            if smp:
                chk.sample({"instance": name, "collide": collide, "behaviour": smp}, limit=3)
    chk.exhaustive = True
    # deeper / wider: simulation of a 4-slot instance
    for collide in ((False, True) if sim_instance else ()):
        raw = simulate(chk, sim_instance, collide, num=150 if quick else 2000, depth=14, seed=chk.seed)
        _absorb(chk, pid, core.parallel(_replay, raw, {"collide": collide, "poolset": "adversarial", "pid": pid}, chunk=1000))


def replay(chk: core.Check, data: dict, pid: str):
    core.use_repo()
    case = data["case"]
    install_collide(case.get("collide", False))
    W = World(zoo.BASIC, case.get("poolset", "plain"))
    try:
        replay_behaviour(W, case, {}, case.get("collide", False), case.get("fmt", "dict"))
    except Mismatch as m:
        chk.add(core.Violation(m.clause, case, m.detail))
    finally:
        install_collide(False)


# ---------------------------------------------------------------------------------------------
# code -> spec: random histories on the real library, validated by Trace_Registry


def _alpha(drv: RegDriver, W: World) -> dict:
    """Projection of the real world: everything is read from the real objects."""
    live = drv.live()
    objs = {}
    for s, o in live.items():
        c = drv.class_name(o)
        p = {}
        for f in W.zi.prop_fields(c):
            val = getattr(o, f["n"])
            pool = W_pool(W, f)
            idx = [i for i, x in enumerate(pool) if type(x) is type(val) and x == val and repr(x) == repr(val)]
            p[f["n"]] = idx[0] if idx else 99
        k = {}
        for f in W.zi.child_fields(c):
            v = getattr(o, f["n"])
            k[f["n"]] = [drv.name_of(x) for x in v] if isinstance(v, tuple) else drv.name_of(v)
        objs[s] = {"c": c, "p": p, "k": k, "o": origin_atom(W, o.origin)}
    ss = sorted(live)
    return {
        "live": ss,
        "objs": objs,
        "reg": [s for s in ss if drv.REG.get(live[s].id) is live[s]],
        "look": {s: drv.name_of(drv.ASTNode.get_any(live[s].id)) for s in ss},
        "sameid": [[a, b] for a in ss for b in ss if a != b and live[a].id == live[b].id],
    }


def origin_atom(W: World, org) -> int:
    """index of the pool origin that `org` equals (same type, same singletons); 99 if none"""
    from pyoak.origin import NO_ORIGIN, NO_POSITION, NO_SOURCE
    for i, x in enumerate(W.origins):
        if x is org:
            return i
    if isinstance(org, type(NO_ORIGIN)) or org is NO_ORIGIN:
        return 99   # a NoOrigin that is not the singleton
    for i, x in enumerate(W.origins):
        if type(x) is type(org) and x == org and (x.source is NO_SOURCE) == (org.source is NO_SOURCE) \
                and (x.position is NO_POSITION) == (org.position is NO_POSITION) \
                and type(x.source) is type(org.source) and type(x.position) is type(org.position):
            return i
    return 99


def W_pool(W: World, f: dict):
    from .. import pools as P
    return P.POOLSETS[W.poolset][f["pool"]]


def _record_registry(chunk, arg):
    """chunk: list of (tid, seed, digest) -> ndjson lines"""
    core.use_repo()
    import pyoak.config as cfg
    W = World(zoo.BASIC, "plain")
    zi = W.zi
    lines = []
    classes = ["Leaf", "SubLeaf", "Unary", "Opt", "Bin", "Many", "SubMany", "Pair", "FLeaf", "FUnary", "Rich"]
    norg = len(W.origins)
    ser_on = arg.get("ser", False)
    for tid, seed, digest in chunk:
        rng = random.Random(seed)
        old = cfg.ID_DIGEST_SIZE
        cfg.ID_DIGEST_SIZE = digest
        try:
            drv = RegDriver(W, {})
            lines.append({"tid": tid, "seq": 0, "op": "init", "inj": digest >= 8})
            counter = 0
            nblobs = 0

            def base_of(o):
                return o.id.split("_")[0]

            def fresh():
                nonlocal counter
                counter += 1
                return f"n{counter}"

            for seq in range(1, arg["steps"] + 1):
                live = drv.live()
                held = sorted(drv.strong)
                mirror = {s: drv.class_name(o) for s, o in live.items()}
                r = rng.random()
                ev = None
                if r < 0.35 or not held:
                    c = rng.choice(classes)
                    rec = {"c": c, "p": {}, "k": {}, "o": rng.randrange(norg)}
                    ok = True
                    for f in zi.fields(c):
                        if f["kind"] == "prop":
                            rec["p"][f["n"]] = 0 if not f["init"] else rng.randrange(len(W_pool(W, f)))
                            continue
                        def pick(allowed):
                            av = [s for s in sorted(mirror) if mirror[s] in allowed]
                            return rng.choice(av) if av else None
                        if f["kind"] == "one":
                            t = pick(zi.allowed_classes(f))
                            if t is None:
                                ok = False
                                break
                            rec["k"][f["n"]] = t
                        elif f["kind"] == "opt":
                            t = pick(zi.allowed_classes(f)) if rng.random() < 0.6 else None
                            rec["k"][f["n"]] = t or "none"
                        elif f["kind"] == "tuple":
                            ts = [pick(zi.allowed_classes(f)) for _ in range(rng.randrange(4))]
                            rec["k"][f["n"]] = [t for t in ts if t]
                        else:
                            ts = [pick(zi.allowed_classes(f, j)) for j in range(len(f["allowed"]))]
                            if any(t is None for t in ts):
                                ok = False
                                break
                            rec["k"][f["n"]] = ts
                    if not ok:
                        rec = {"c": "Leaf", "p": {"a": rng.randrange(3), "b": 0}, "k": {}, "o": 0}
                    ev = {"op": "new", "res": fresh(), "r": rec}
                elif r < 0.50:
                    src = rng.choice(held)
                    c = mirror[src]
                    kinds = ["none"]
                    pf = [f for f in zi.prop_fields(c) if f["init"]]
                    cf = zi.child_fields(c)
                    if pf:
                        kinds += ["prop", "prop"]
                    if cf:
                        kinds += ["kid"]
                    kind = rng.choice(kinds)
                    chg = ["none", "", 0]
                    if kind == "prop":
                        f = rng.choice(pf)
                        chg = ["prop", f["n"], rng.randrange(len(W_pool(W, f)))]
                    elif kind == "kid":
                        f = rng.choice(cf)
                        def pick2(allowed):
                            av = [s for s in sorted(mirror) if mirror[s] in allowed and s != src]
                            return rng.choice(av) if av else None
                        if f["kind"] == "tuple":
                            chg = ["kid", f["n"], [t for t in (pick2(zi.allowed_classes(f)) for _ in range(rng.randrange(3))) if t]]
                        elif f["kind"] == "opt":
                            chg = ["kid", f["n"], (pick2(zi.allowed_classes(f)) if rng.random() < 0.5 else None) or "none"]
                        elif f["kind"] == "one":
                            t = pick2(zi.allowed_classes(f))
                            chg = ["kid", f["n"], t] if t else ["none", "", 0]
                        else:
                            chg = ["none", "", 0]
                    ev = {"op": rng.choice(["replace", "replace", "dcreplace"]), "src": src, "chg": chg, "res": fresh()}
                elif r < 0.53:
                    src = rng.choice(held)
                    why = "unknown_field"
                    if any(not f["init"] for f in zi.prop_fields(mirror[src])) and rng.random() < 0.5:
                        why = "non_init_field"
                    ev = {"op": "replace_fails", "src": src, "why": why}
                elif r < 0.60:
                    src = rng.choice(held)
                    order: list = []
                    drv._postorder(live[src], [], set())
                    n = _tree_size(live[src], drv, W)
                    if n > 12:
                        continue
                    ev = {"op": "dup", "src": src, "res": None, "news": [fresh() for _ in range(n)]}
                    ev["res"] = ev["news"][-1]
                elif r < 0.67:
                    ev = {"op": "detach", "src": rng.choice(held)}
                elif r < 0.75:
                    ev = {"op": "detach_self", "src": rng.choice(held), "popped": None}
                elif ser_on and r < 0.80:
                    ev = {"op": "ser", "src": rng.choice(held), "blob": nblobs + 1}
                    nblobs += 1
                elif ser_on and r < 0.88 and nblobs:
                    ev = {"op": "deser", "blob": rng.randrange(1, nblobs + 1), "fmt": rng.choice(FORMATS),
                          "via_root_class": rng.random() < 0.5, "cbases": False}
                elif ser_on and r < 0.90:
                    ev = {"op": "dropall"}
                elif r < 0.90:
                    ev = {"op": "drop", "src": rng.choice(held)}
                else:
                    cand = [s for s in sorted(live) if s not in drv.strong]
                    if not cand:
                        continue
                    ev = {"op": "hold", "src": rng.choice(cand)}
                del live
                # perform
                if ev["op"] == "detach_self":
                    o = drv.get(ev["src"])
                    ev["popped"] = bool(o.detach_self())
                    o = None
                elif ev["op"] == "deser":
                    # the recorder names what the library created: new nodes in post-order
                    pl = drv.payloads[ev["blob"]]
                    cls = pl["cls"] if ev["via_root_class"] else drv.ASTNode
                    fmt = ev["fmt"]
                    try:
                        res = (cls.as_obj(pl["dict"]) if fmt == "dict" else cls.from_json(pl["json"]) if fmt == "json"
                               else cls.from_msgpck(pl["msgpack"]) if fmt == "msgpack" else cls.from_yaml(pl["yaml"]))
                    except Exception as ex:
                        lines.append({"tid": tid, "seq": seq, "op": "driver-mismatch", "clause": "deser-raised",
                                      "detail": f"{fmt}: {type(ex).__name__}: {ex}", "inj": digest >= 8, "ev": ev})
                        break
                    order: list = []
                    drv._postorder_unnamed(res, order, set())
                    ev["news"] = [fresh() for _ in order]
                    for s_, n_ in zip(ev["news"], order):
                        drv.put(s_, n_, hold=False)
                    ev["res"] = drv.name_of(res)
                    ev["bases"] = [base_of(n_) for n_ in order]
                    drv.strong[ev["res"]] = res
                    res = order = n_ = s_ = pl = None
                else:
                    try:
                        drv.check_frame = True
                        drv.apply(ev)
                    except Mismatch as m:
                        lines.append({"tid": tid, "seq": seq, "op": "driver-mismatch", "clause": m.clause, "detail": m.detail,
                                      "inj": digest >= 8, "ev": ev})
                        break
                if ev["op"] in ("new", "replace", "dcreplace"):
                    ev["bases"] = [base_of(drv.get(ev["res"]))]
                elif ev["op"] == "dup":
                    ev["bases"] = [base_of(drv.get(s)) for s in ev["news"]]
                elif ev["op"] != "deser":
                    ev["bases"] = []
                import gc as _gc
                _gc.collect()
                ev.update({"tid": tid, "seq": seq, "inj": digest >= 8, "post": _alpha(drv, W)})
                lines.append(ev)
            drv.strong.clear()
            drv.weak.clear()
        finally:
            cfg.ID_DIGEST_SIZE = old
    return lines


def _tree_size(o, drv, W) -> int:
    n = 1
    for f in W.zi.child_fields(drv.class_name(o)):
        v = getattr(o, f["n"])
        for x in (v if isinstance(v, tuple) else ([] if v is None else [v])):
            n += _tree_size(x, drv, W)
    return n


def trace_validate(chk: core.Check, lines: list, name="regtrace"):
    """-> {line number: text of the rejection}"""
    f = chk.wd / f"{name}.ndjson"
    with open(f, "w") as fh:
        for ln in lines:
            fh.write(json.dumps(ln) + "\n")
    mod, cfg = inst.instance(
        "I_TraceRegistry", "Trace_Registry",
        dict(Slots=set(), MaxTuple=0, GenClasses=set(), Origins=set(), PropAtoms="@op:PA", Collide=False, CondPop=True, Ops=set(), MaxBlobs=0, ForceTaken=False, ObserveKinds=set()),
        ops=["PA(c, f) == {}"], invariants=["TraceRegExact", "TraceIdsUnique"], postcondition="Done", init="TInit", next_="TNext",
        extra_cfg=["CHECK_DEADLOCK FALSE"])
    (chk.wd / "I_TraceRegistry.tla").write_text(mod)
    r = tlc.run(chk.wd, "I_TraceRegistry", cfg, workers=1, timeout=3000, env={"TRACE_FILE": str(f)})
    chk.note_tlc(f"Trace_Registry/{name}", r, "trace-validation")
    if r.violated:
        chk.tlc_violation("Trace_Registry-" + name, r)
        return {}
    return {i: json.dumps(info[2]) for i, info in tlc.rejected(r, len(lines), "Trace_Registry").items()}


def run_traces(chk: core.Check, pid: str, ntraces: int, steps: int, ser: bool = False):
    rng = random.Random(chk.seed + 17)
    jobs = [(i, rng.randrange(1 << 30), [8, 8, 2, 1][i % 4]) for i in range(ntraces)]
    lines = []
    for ls in core.parallel(_record_registry, jobs, {"steps": steps, "ser": ser}, chunk=max(1, ntraces // 32)):
        lines.extend(ls)
    # driver-detected mismatches (frame condition, unchanged fields) are violations by themselves
    judged = []
    for ln in lines:
        if ln["op"] == "driver-mismatch":
            if ln["clause"] in CLAUSES[pid]:
                chk.add(core.Violation(ln["clause"], {"m": "registry-trace", "line": ln}, ln["detail"]))
        else:
            judged.append(ln)
    rej = trace_validate(chk, judged)
    tids = {ln["tid"] for ln in judged}
    # binding canary: a few recorded histories with one registry entry dropped from the last observed state
    bad = []
    for tid in sorted(tids - {judged[i - 1]["tid"] for i in rej})[:6]:
        hist = json.loads(json.dumps([ln for ln in judged if ln["tid"] == tid]))
        for j in range(len(hist) - 1, 0, -1):
            if hist[j].get("post", {}).get("reg"):
                hist[j]["post"]["reg"] = hist[j]["post"]["reg"][1:]
                bad += hist[: j + 1]
                break
    if bad:
        crej = trace_validate(chk, bad, "canary")
        chk.notes.setdefault("binding_canary", []).append({"trace_spec": "Trace_Registry", "corrupted_histories": len({ln["tid"] for ln in bad}),
                                                         "rejected": len(crej)})
        if not crej:
            raise tlc.MachineryError("binding canary: Trace_Registry accepted histories with a registry entry dropped")
    bad_tids = set()
    for i, why in rej.items():
        ln = judged[i - 1]
        if pid == "C14" and ln["op"] not in ("dup", "replace", "dcreplace"):
            continue
        if pid == "C04" and ln["op"] != "deser":
            continue
        bad_tids.add(ln["tid"])
        prefix = [x for x in judged if x["tid"] == ln["tid"] and x["seq"] <= ln["seq"]]
        chk.add(core.Violation("trace:" + why.strip(" >"), {"m": "registry-trace", "lines": prefix},
                               f"trace {ln['tid']} step {ln['seq']} ({ln['op']}) rejected by Trace_Registry: {why}"))
    chk.traces_accepted += len(tids) - len(bad_tids)
    chk.evaluations += len(judged)
    chk.notes["recorded_steps_validated"] = chk.notes.get("recorded_steps_validated", 0) + len(judged)
    if judged:
        chk.sample({"recorded_event": {k: v for k, v in judged[min(5, len(judged) - 1)].items() if k != "post"}})


# ---------------------------------------------------------------------------------------------
# C04: a fresh process that receives only the payload


def fresh_process(chk: core.Check, ntrees: int):
    import base64
    import os
    import subprocess
    import sys

    from ..gen import random_heap
    from ..heap import slot_order
    core.use_repo()
    from pyoak.origin import SOURCE_OPTIMIZED_SERIALIZATION_KEY, Source
    W = World(zoo.BASIC, "plain")
    zi = W.zi
    rng = random.Random(chk.seed + 99)
    jobs = []
    classes = ["Leaf", "SubLeaf", "Unary", "Opt", "Bin", "Many", "SubMany", "Pair", "Rich", "FLeaf"]
    keep = []
    for t in range(ntrees):
        h = random_heap(rng, zi, rng.randrange(1, 9), classes, max_tuple=3, share=0.2, norigins=len(W.origins))
        for s, r in h.items():          # rich atoms over the whole pools
            for f in zi.prop_fields(r["c"]):
                if f["init"]:
                    r["p"][f["n"]] = rng.randrange(len(W_pool(W, f)))
        twins = W.build(h) if rng.random() < 0.5 else None    # registered twins => collision suffixes
        objs = W.build(h)
        root = slot_order(h)[-1]
        o = objs[root]
        payload = {"root": root, "h": {}}
        for s in slot_order(h):
            if s not in _reach(h, root, zi):
                continue
            x = objs[s]
            b, _, n = x.id.partition("_")
            payload["h"][s] = {"c": h[s]["c"], "p": h[s]["p"], "k": h[s]["k"], "o": h[s]["o"], "idb": b, "idn": int(n or 0)}
        for fmt in ("dict", "json", "msgpack", "yaml", "json-idx"):
            if fmt == "dict":
                try:
                    data = json.dumps(o.as_dict()).encode()
                except TypeError:
                    continue     # a dict payload may hold values plain JSON cannot carry; the other formats cover them
            elif fmt == "json":
                data = o.to_jsonb()
            elif fmt == "msgpack":
                data = o.to_msgpck()
            elif fmt == "yaml":
                data = o.to_yaml().encode()
            else:
                data = o.to_jsonb(serialization_options={SOURCE_OPTIMIZED_SERIALIZATION_KEY: True})
            job = {"tid": len(jobs), "fmt": fmt, "cls": h[root]["c"], "via_root_class": rng.random() < 0.5,
                   "data": base64.b64encode(data).decode(), "payload": payload}
            if fmt == "json-idx":
                job["sources"] = Source.all_as_dict()
            jobs.append(job)
        keep.append((twins, objs))
    jf = chk.wd / "fresh_jobs.json"
    of = chk.wd / "fresh_out.ndjson"
    jf.write_text(json.dumps(jobs))
    env = dict(os.environ, PYTHONHASHSEED=str(chk.seed % 1000 + 3), PYTHONPATH=str(core.VERIF))
    p = subprocess.run([sys.executable, "-m", "harness.fresh", str(jf), str(of)], cwd=core.VERIF, env=env,
                       capture_output=True, text=True, timeout=1800)
    if p.returncode != 0:
        raise tlc.MachineryError("fresh process failed:\n" + p.stderr[-3000:])
    lines = [json.loads(x) for x in of.read_text().splitlines()]
    judged = []
    for ln in lines:
        if ln["op"] == "driver-mismatch":
            chk.add(core.Violation(ln["clause"], {"m": "fresh-process", "line": ln}, ln["detail"]))
        else:
            judged.append(ln)
    rej = trace_validate(chk, judged, "fresh")
    bad = set()
    for i, why in rej.items():
        ln = judged[i - 1]
        bad.add(ln["tid"])
        chk.add(core.Violation("fresh-process:" + why.strip(" >"),
                               {"m": "fresh-process", "lines": [x for x in judged if x["tid"] == ln["tid"]]},
                               f"payload {ln.get('fmt')} deserialized in a fresh process differs from the payload: {why}"))
    chk.traces_accepted += len({ln["tid"] for ln in judged}) - len(bad)
    chk.evaluations += len(judged)
    chk.notes["fresh_process_payloads"] = len(jobs)
    del keep


def _reach(h, root, zi):
    out = set()

    def go(s):
        if s in out:
            return
        out.add(s)
        for f in zi.child_fields(h[s]["c"]):
            v = h[s]["k"][f["n"]]
            for t in (v if isinstance(v, list) else [v]):
                if t != "none":
                    go(t)
    go(root)
    return out
