"""Shared by C06 (Tree queries) and C07 (xpath search / match)."""
from __future__ import annotations

import json
import random
import re

from .. import core, inst, tlc, zoo
from ..gen import random_heap, wide_heap
from ..heap import Slots, World, norm_heap, slot_order
from ..xpathtext import render

PROFILES = {
    # name: (classes, MaxObjs quick, thorough, MaxTuple, xfields, xclasses)
    "struct": (["Leaf", "SubLeaf", "Unary", "Many"], 4, 5, 2, {"child", "items", "head"}, {"Leaf", "Unary", "ASTNode"}),
    "mixed": (["Leaf", "FLeaf", "Opt", "Bin", "Pair"], 4, 5, 2, {"child", "left", "right", "pair"}, {"Leaf", "FLeaf", "Bin"}),
    # a parent with two tuple fields (and a single one) holding nodes of one class at the same index
    "twotuples": (["Leaf", "SubMany"], 3, 4, 2, {"items", "extra", "head"}, {"Leaf", "ASTNode"}),
}
ANC = {frozenset({"Unary"}), frozenset({"Many", "Unary"}), frozenset({"ASTNode"}), frozenset({"Leaf", "Bin"})}


def gen_cases(chk: core.Check, profile: str, nobj: int, which: str):
    classes, _, _, mt, xf, xc = PROFILES[profile]
    mod, cfg = inst.instance(
        "I_Tree", "Gen_Tree",
        dict(MaxObjs=nobj, MaxTuple=mt, GenClasses=set(classes), Origins={0}, PropAtoms="@op:PA",
             AncClasses=set(ANC), XFields=set(xf), XClasses=set(xc), XIndices={0, 1}, NPath2=7, NPath3=3),
        ops=[inst.prop_atoms_def("PA", {}, {0})],
        invariants=["EmitTree" if which == "tree" else "EmitXPath", "XAgree", "TreeConsistent", "DerivedFinds"])
    (chk.wd / "I_Tree.tla").write_text(mod)
    r = tlc.run(chk.wd, "I_Tree", cfg, workers=core.NPROC, timeout=3000, seed=chk.seed)
    tlc.require_clean(r, f"Gen_Tree/{profile}")
    chk.note_tlc(f"Gen_Tree/{which}/{profile}/objs={nobj}", r, "mc+gen")
    if r.violated:
        chk.tlc_violation(f"Gen_Tree-{profile}", r)
    return r.json_raw


_seg = re.compile(r"/@(\w+)\[(\d+)\](\w+)")


def follow_xpath(text: str, root):
    """Independent walker: follow a Tree.get_xpath() spelling from the root."""
    segs = _seg.findall(text)
    if "".join(f"/@{f}[{i}]{c}" for f, i, c in segs) != text or not segs:
        return None, "unparsable"
    f, i, c = segs[0]
    if f != "root" or type(root).__name__ != c:
        return None, "first segment is not the root"
    cur = root
    for f, i, c in segs[1:]:
        v = getattr(cur, f, None)
        if isinstance(v, tuple):
            if int(i) >= len(v):
                return None, "index out of range"
            cur = v[int(i)]
        else:
            if int(i) != 0 or v is None:
                return None, "no such child"
            cur = v
        if type(cur).__name__ != c:
            return None, "class differs"
    return cur, ""


def tree_obs(W, S: Slots, tree, objs, n: str, allnodes: list[str]):
    """everything Tree says about node n, abstracted"""
    o = objs[n]
    p, f, i = tree.get_parent_info(o)
    return {
        "pinfo": [S.of(p), f.name if f is not None else "none", -1 if i is None else i],
        "parent": S.of(tree.get_parent(o)),
        "anc": [S.of(a) for a in tree.get_ancestors(o)],
        "depth": tree.get_depth(o),
        "is_root": tree.is_root(o),
        "in_tree": tree.is_in_tree(o),
    }


def check_tree_case(W: World, case: dict) -> list:
    from pyoak.tree import Tree
    out = []
    h = norm_heap(case["h"])
    objs = W.build(h)
    objs2 = W.build(h)        # foreign twins: content-identical, same origins, not in the tree
    S = Slots(objs)
    root = objs[case["root"]]
    tree = Tree(root)

    def bad(clause, detail, sub=None):
        out.append((clause, detail, {"m": "tree", "h": h, "root": case["root"], "nodes": sub or [], "outside": case.get("outside", [])}))

    seen_paths = {}
    for nc in case["nodes"]:
        n = nc["n"]
        o = objs[n]
        obs = tree_obs(W, S, tree, objs, n, [])
        if obs["pinfo"] != list(nc["pinfo"]) or obs["parent"] != nc["pinfo"][0]:
            bad("parent_info", f"{n}: {obs['pinfo']} expected {nc['pinfo']}", [nc])
        if obs["anc"] != list(nc["anc"]):
            bad("ancestors", f"{n}: {obs['anc']} expected {nc['anc']}", [nc])
        if obs["depth"] != nc["depth"]:
            bad("depth", f"{n}: {obs['depth']} expected {nc['depth']}", [nc])
        if obs["is_root"] != (n == case["root"]) or not obs["in_tree"]:
            bad("is_root/in_tree", f"{n}: is_root={obs['is_root']} in_tree={obs['in_tree']}", [nc])
        rel = nc["rel"] if nc["rel"] != [] else {}
        for a, exp in rel.items():
            isanc = a in nc["isanc"]
            if tree.is_ancestor(o, objs[a]) != isanc:
                bad("is_ancestor", f"is_ancestor({n},{a}) expected {isanc}", [nc])
            try:
                got = {"tag": "ok", "v": tree.get_depth(o, objs[a])}
            except ValueError:
                got = {"tag": "ValueError", "v": 0}
            if got != exp:
                bad("relative_depth", f"get_depth({n}, relative_to={a}) = {got} expected {exp}", [nc])
        for fa in nc["fa"]:
            cls = tuple(W.cls(c) for c in fa["classes"])
            got = S.of(tree.get_first_ancestor_of_type(o, cls if len(cls) > 1 else cls[0], exact_type=fa["exact"]))
            if got != fa["res"]:
                bad("first_ancestor_of_type", f"{n} {fa['classes']} exact={fa['exact']}: {got} expected {fa['res']}", [nc])
        xp = tree.get_xpath(o)
        tgt, why = follow_xpath(xp, root)
        if tgt is not o:
            bad("get_xpath-follow", f"{n}: following {xp!r} from the root does not reach the node ({why})", [nc])
        exp_path = "".join(f"/@{'root' if k == 0 else f}[{max(i, 0)}]{W.pre + c}" for k, (f, i, c) in enumerate(nc["path"]))
        if xp != exp_path:
            bad("get_xpath-spelling", f"{n}: {xp!r} expected {exp_path!r}", [nc])
        if xp in seen_paths:
            bad("get_xpath-injective", f"{n} and {seen_paths[xp]} share {xp!r}", [nc])
        seen_paths[xp] = n
    innodes = {nc["n"] for nc in case["nodes"]}
    foreign = [(s, objs[s]) for s in case.get("outside", [])] + [(s + "'", objs2[s]) for s in sorted(innodes)]
    member = objs[sorted(innodes)[0]]
    for s, f in foreign:
        if tree.is_in_tree(f):
            bad("is_in_tree-foreign", f"foreign {s} reported in tree")
        for name, call in (("get_parent", lambda: tree.get_parent(f)), ("get_parent_info", lambda: tree.get_parent_info(f)),
                           ("get_ancestors", lambda: list(tree.get_ancestors(f))), ("get_depth", lambda: tree.get_depth(f)),
                           ("get_xpath", lambda: tree.get_xpath(f)), ("is_ancestor", lambda: tree.is_ancestor(f, root)),
                           ("get_first_ancestor_of_type", lambda: tree.get_first_ancestor_of_type(f, W.cls("ASTNode")))):
            try:
                call()
            except KeyError:
                continue
            except Exception as ex:
                bad("foreign-" + name, f"{name}(foreign {s}) raised {type(ex).__name__}, expected KeyError")
                continue
            bad("foreign-" + name, f"{name}(foreign {s}) did not raise KeyError")
        if tree.is_ancestor(member, f):
            bad("is_ancestor-foreign", f"foreign {s} reported as ancestor")
    return out


def check_xpath_case(W: World, case: dict, legacy=False) -> list:
    from pyoak.match.xpath import ASTXpath
    from pyoak.tree import Tree
    out = []
    h = norm_heap(case["h"])
    objs = W.build(h)
    S = Slots(objs)
    root = objs[case["root"]]
    tree = Tree(root)
    nodes = [S.of(root)] + [S.of(ni.node) for ni in root.dfs()]
    for j, pc in enumerate(case["paths"]):
        steps = pc["p"]
        exp = set(pc["found"])
        style = j % 3
        text = render(steps, style, W.pre)

        def bad(clause, detail):
            out.append((clause, detail, {"m": "xpath", "h": h, "root": case["root"], "paths": [pc], "text": text}))
        try:
            x = ASTXpath(text)
        except Exception as ex:
            bad("compile", f"{text!r} raised {type(ex).__name__}: {ex}")
            continue
        res = [S.of(n) for n in x.findall(root)]
        if len(set(res)) != len(res):
            bad("findall-duplicates", f"{text!r}: {res}")
        if set(res) != exp:
            bad("findall", f"{text!r}: found {sorted(set(res))} expected {sorted(exp)}")
        first = x.findall(root)
        f0 = next(first, None)
        got = root.find(text)
        if got is not f0:
            bad("find", f"{text!r}: find() -> {S.of(got)}, first of findall -> {S.of(f0)}")
        if (got is None) != (not exp):
            bad("find-none", f"{text!r}: find() -> {S.of(got)} expected {'None' if not exp else 'a node'}")
        if set(S.of(n) for n in root.findall(x)) != exp:
            bad("node.findall", f"{text!r}")
        for k, n in enumerate(nodes):
            m = x.match(root if k % 2 else tree, objs[n])
            if m != (n in exp):
                bad("match", f"{text!r}: match(root, {n}) = {m}, expected {n in exp}")
    return out


def _replay(chunk, arg):
    core.use_repo()
    W = World(zoo.BASIC, "plain")
    viol, n, nontriv = [], 0, set()
    for raw in chunk:
        case = tlc.decode(raw) if isinstance(raw, str) else raw
        if case["m"] == "tree":
            viol.extend(core.safe(check_tree_case, case, W, case))
            n += len(case["nodes"])
            if len(case["nodes"]) >= 3:
                nontriv.add(hash(raw))
        else:
            viol.extend(core.safe(check_xpath_case, case, W, case))
            n += len(case["paths"])
            for pc in case["paths"]:
                if pc["found"]:
                    nontriv.add(hash(json.dumps([case["h"], pc["p"]], sort_keys=True)))
    return viol, n, nontriv


def run_gen(chk: core.Check, which: str):
    quick = chk.tier == "quick"
    for prof, (_, nq, nt, *_r) in PROFILES.items():
        raw = gen_cases(chk, prof, nq if quick else nt, which)
        chk.bounds[prof] = {"MaxObjs": nq if quick else nt, "classes": PROFILES[prof][0]}
        if raw:
            c = tlc.decode(raw[len(raw) // 2])
            chk.sample({k: (v if k != ("nodes" if which == "tree" else "paths") else v[:2]) for k, v in c.items()}, limit=2)
        for viol, n, nontriv in core.parallel(_replay, raw, {}, chunk=50):
            chk.evaluations += n
            chk.nontrivial |= nontriv
            for clause, detail, case in viol:
                chk.add(core.Violation(clause, case, detail))
        chk.replayed += len(raw)
    chk.exhaustive = which == "tree"


# ---------------------------------------------------------------------------------------------
# code -> spec


def random_steps(rng, zi, classes, nsteps, wide=False):
    fields = sorted({f["n"] for c in classes for f in zi.child_fields(c)}) + ["nofield"]
    steps = []
    for _ in range(nsteps):
        steps.append({"any": rng.random() < 0.5,
                      "f": rng.choice(fields) if rng.random() < 0.5 else "none",
                      "i": rng.choice([0, 0, 1, 2, 10, 11, 12] if wide else [0, 0, 1, 2]) if rng.random() < 0.35 else -1,
                      "c": rng.choice(classes + ["ASTNode"]) if rng.random() < 0.7 else "none"})
    return steps


def derived_steps(rng, path):
    """generalization of a real root path [[f, i, c], ...] (root first)"""
    L = len(path)
    keep = sorted(set(rng.sample(range(L), rng.randrange(1, L + 1))) | {L - 1})
    steps = []
    for j, ix in enumerate(keep):
        f, i, c = path[ix]
        gap = (ix != 0) if j == 0 else (ix != keep[j - 1] + 1)
        v = rng.randrange(4)
        steps.append({"any": gap or rng.random() < 0.3,
                      "f": "none" if v == 2 else f, "i": -1 if v in (2, 3) else i, "c": "none" if v == 3 else c})
    return steps


def _record(chunk, arg):
    from pyoak.match.xpath import ASTXpath
    from pyoak.tree import Tree
    core.use_repo()
    W = World(zoo.BASIC, "plain")
    zi = W.zi
    lines = []
    which = arg["which"]
    for seed in chunk:
        rng = random.Random(seed)
        classes = rng.choice([["Leaf", "SubLeaf", "Unary", "Many", "SubMany", "Bin", "Opt", "Pair"],
                              ["Leaf", "FLeaf", "FUnary", "Unary", "Many", "Rich"]])
        wide = rng.random() < 0.4
        nobj = rng.randrange(4, arg["maxobj"])
        if wide:
            h = wide_heap(rng, "Leaf", "Many", "items", "Unary")
            nobj = len(h)
        else:
            h = random_heap(rng, zi, nobj, classes, max_tuple=3, share=0.0)
        root = f"s{nobj}"
        # drop sharing: random_heap with share=0 can still reuse when nothing is free; keep only proper trees
        objs = W.build(h)
        S = Slots(objs)
        r = objs[root]
        pre = [S.of(ni.node) for ni in r.dfs()]
        if len(set(pre)) != len(pre) or root in pre:
            continue
        nodes = [root] + pre
        hh = {s: h[s] for s in nodes}
        base = {"h": hh, "root": root}
        tree = Tree(r)
        if which == "tree":
            for n in rng.sample(nodes, min(len(nodes), 6)):
                o = objs[n]
                p, f, i = tree.get_parent_info(o)
                lines.append({**base, "op": "parent_info", "n": n, "obs": [S.of(p), f.name if f else "none", -1 if i is None else i]})
                lines.append({**base, "op": "ancestors", "n": n, "obs": [S.of(a) for a in tree.get_ancestors(o)]})
                lines.append({**base, "op": "depth", "n": n, "obs": tree.get_depth(o)})
                a = rng.choice(nodes)
                lines.append({**base, "op": "is_ancestor", "n": n, "a": a, "obs": tree.is_ancestor(o, objs[a])})
                try:
                    obs = {"tag": "ok", "v": tree.get_depth(o, objs[a])}
                except ValueError:
                    obs = {"tag": "ValueError", "v": 0}
                lines.append({**base, "op": "rel_depth", "n": n, "a": a, "obs": obs})
                cs = rng.sample(zi.order + ["ASTNode"], rng.choice([1, 2]))
                ex = rng.random() < 0.5
                cl = tuple(W.cls(c) for c in cs)
                lines.append({**base, "op": "first_anc", "n": n, "classes": cs, "exact": ex,
                              "obs": S.of(tree.get_first_ancestor_of_type(o, cl if len(cl) > 1 else cl[0], exact_type=ex))})
                xp = tree.get_xpath(o)
                segs = _seg.findall(xp)
                # the spelled path, abstracted back (index of a non-tuple position is spelled 0)
                path = []
                cur = None
                okp = True
                for k, (f2, i2, c2) in enumerate(segs):
                    if k == 0:
                        path.append(["none", -1, c2])
                        cur = r
                    else:
                        v = getattr(cur, f2, None)
                        if isinstance(v, tuple) and int(i2) < len(v):
                            path.append([f2, int(i2), c2])
                            cur = v[int(i2)]
                        elif v is not None and not isinstance(v, tuple):
                            path.append([f2, -1 if int(i2) == 0 else int(i2), c2])
                            cur = v
                        else:
                            okp = False
                            break
                if not okp or cur is not o:
                    path = [["unfollowable", -1, xp]]
                lines.append({**base, "op": "path", "n": n, "obs": path})
        else:
            for _ in range(arg["paths"]):
                if rng.random() < 0.6:
                    tgt = objs[rng.choice(nodes)]
                    chain = [tgt] + list(tree.get_ancestors(tgt))
                    path = []
                    for o_ in reversed(chain):
                        p_, f_, i_ = tree.get_parent_info(o_)
                        path.append([f_.name if f_ else "none", -1 if i_ is None else i_, W.zi_name(o_)])
                    steps = derived_steps(rng, path)
                else:
                    steps = random_steps(rng, zi, classes, rng.choice([1, 2, 2, 3, 4]), wide)
                text = render(steps, rng.randrange(3), W.pre)
                x = ASTXpath(text)
                lines.append({**base, "op": "xfind", "p": steps, "text": text, "obs": [S.of(n) for n in x.findall(r)]})
                n = rng.choice(nodes)
                lines.append({**base, "op": "xmatch", "p": steps, "text": text, "n": n, "obs": bool(x.match(r, objs[n]))})
    return lines


def trace_validate(chk, lines, name="trace"):
    f = chk.wd / f"{name}.ndjson"
    with open(f, "w") as fh:
        for ln in lines:
            fh.write(json.dumps(ln) + "\n")
    cfg = "INIT Init\nNEXT Next\nPOSTCONDITION Done\nCHECK_DEADLOCK FALSE\n"
    r = tlc.run(chk.wd, "Trace_Tree", cfg, workers=1, timeout=3000, env={"TRACE_FILE": str(f)})
    chk.note_tlc(f"Trace_Tree/{name}", r, "trace-validation")
    return sorted(tlc.rejected(r, len(lines), "Trace_Tree"))


def run_traces(chk: core.Check, which: str, n: int, maxobj: int):
    rng = random.Random(chk.seed + 5)
    seeds = [rng.randrange(1 << 30) for _ in range(n)]
    lines = []
    for ls in core.parallel(_record, seeds, {"which": which, "maxobj": maxobj, "paths": 8}):
        lines.extend(ls)
    rej = trace_validate(chk, lines)
    core.canary(chk, lines, trace_validate, what="Trace_Tree", skip=set(rej))
    chk.traces_accepted += len(lines) - len(rej)
    chk.evaluations += len(lines)
    for i in rej[:25]:
        ln = lines[i - 1]
        chk.add(core.Violation("trace-" + ln["op"], {"m": "tree-trace", **ln},
                               f"recorded {ln['op']} {ln.get('text', '')} -> {ln['obs']} is not what TreeQ.tla prescribes"))
    if lines:
        chk.sample({"recorded_line": {k: v for k, v in lines[len(lines) // 2].items() if k != "h"}})


def replay(chk: core.Check, data: dict):
    core.use_repo()
    case = data["case"]
    W = World(zoo.BASIC, "plain")
    if case["m"] == "tree":
        for clause, detail, c in check_tree_case(W, case):
            chk.add(core.Violation(clause, c, detail))
    elif case["m"] == "xpath":
        for clause, detail, c in check_xpath_case(W, case):
            chk.add(core.Violation(clause, c, detail))
    else:
        from pyoak.match.xpath import ASTXpath
        objs = W.build(case["h"])
        S = Slots(objs)
        r = objs[case["root"]]
        ln = {k: v for k, v in case.items() if k != "m"}
        if case["op"] == "xfind":
            ln["obs"] = [S.of(n) for n in ASTXpath(case["text"]).findall(r)]
        elif case["op"] == "xmatch":
            ln["obs"] = bool(ASTXpath(case["text"]).match(r, objs[case["n"]]))
        if trace_validate(chk, [ln], "replay"):
            chk.add(core.Violation(data["clause"], case, "still rejected by Trace_Tree"))
