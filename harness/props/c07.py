"""C07 XPath search and XPath match agree with each other and the documented semantics."""
from . import treeq

PID = "C07"


def run(chk):
    chk.rule = ("MC: TreeQ.Agree -- the top-down FindAll and the bottom-up Match formulations of the documented path "
                "semantics coincide on every tree and path tried. Gen: every tree (no repeated objects) of <= N "
                "objects x all 1-step paths over (anywhere x field x index x class), all / sampled 2-step and sampled "
                "3-step paths, expected result set from TreeQ.FindAll; rendered as text in three spellings; findall as "
                "duplicate-free set, find = first of findall / None, match(root | Tree, n) for every node, node.find / "
                "node.findall front-ends. Non-trivial: paths with a non-empty result. Trace: random trees (tuples up "
                "to 13) x random paths of 1-4 steps with indices up to 12, validated by Trace_Tree.tla. The order of "
                "findall is not compared.")
    treeq.run_gen(chk, "xpath")
    treeq.run_traces(chk, "xpath", 80 if chk.tier == "quick" else 800, 25 if chk.tier == "quick" else 40)


def replay(chk, data):
    treeq.replay(chk, data)
