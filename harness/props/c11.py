"""C11 Every field annotation is soundly classified as child, property, or rejected."""
from __future__ import annotations

import json
import random

from .. import core, inst, tlc
from ..anntext import ARITY, VARIANTS, observe

PID = "C11"
VALS = [("vTrue",), ("vFalse",), ("v0",), ("v1",), ("vflt",), ("vstr",), ("vstra",), ("vNone",), ("vRed",), ("vgn",), ("vgm",),
        ("tup0",), ("tup1", "v1"), ("tup1", "vgn"), ("tup2", "vstr", "v1"), ("tup2", "vgn", "vgm"), ("lst1", "v1"), ("fs1", "v1"),
        ("tup1", "vTrue"), ("tup2", "vgm", "vNone"), ("tup1", "vFalse"), ("tup2", "v1", "vFalse"), ("tup1", "vNone"),
        ("tup2", "vstra", "v1"), ("tup1", "vgm"), ("lst1", "vgn"), ("tup3", "vstr", "v1", "v1"), ("tup3", "vgn", "vgm", "vgn"),
        ("tup3", "v1", "v1", "v1"), ("tup2", "vstra", "vstr"), ("tup2", "v1", "v0"), ("tup3", "vstra", "vstra", "vstr"),
        ("tup2", "vgm", "vgn"), ("tup2", "tup1", "v1", "tup1", "vstr"), ("tup2", "tup1", "vstr", "tup1", "v1"),
        ("tup2", "vNone", "v1"), ("tup2", "v0", "vNone")]
ALL_LEAVES = {"int", "str", "float", "bool", "none", "any", "lit", "enum", "GN", "GM"}
FEW_LEAVES = {"int", "none", "GN", "GM"}


def gen(chk, mode, depth, name, leaves=None):
    mod, cfg = inst.instance("I_Typing", "Gen_Typing", dict(Mode=mode, Depth=depth, Values={tuple(v) for v in VALS},
                                                            GenLeaves=set(leaves or ALL_LEAVES)),
                             invariants=["EmitInv", "Sound"])
    (chk.wd / "I_Typing.tla").write_text(mod)
    r = tlc.run(chk.wd, "I_Typing", cfg, workers=core.NPROC, timeout=3000, heap="8g")
    tlc.require_clean(r, "Gen_Typing")
    chk.note_tlc(f"Gen_Typing/{name}", r, "mc+gen")
    if r.violated:
        chk.tlc_violation("Gen_Typing-" + name, r)
    return r.json_raw


def has_node(t):
    return any(x in ("GN", "GM") for x in t)


def judge_single(term, verdict, variant) -> tuple | None:
    o = observe([term], variant)
    case = {"m": "typing", "t": term, "verdict": verdict, "variant": variant, "source": o["source"]}
    if o["stage"] == "other":
        if "mashumaro" in o["error"]:
            return ("dependency", o["error"], case)
        return ("stray-exception", f"{variant} {term}: {o['error']}", case)
    if verdict == "reject":
        if o["stage"] in ("definition", "instantiation") and o["rejected"] == [0]:
            return None
        return ("not-rejected", f"{variant} {term}: must be rejected with InvalidFieldAnnotations, but was accepted as "
                f"{o['kinds'].get(0)} (stage {o['stage']})", case)
    if o["stage"] != "ok":
        return ("wrongly-rejected", f"{variant} {term}: a valid {verdict} annotation was rejected at {o['stage']}", case)
    if o["kinds"][0] != verdict:
        return ("misclassified", f"{variant} {term}: classified as {o['kinds'][0]}, expected {verdict}", case)
    return None


def _replay(chunk, arg):
    """chunk: list of (variant, verdictclass, [(term, verdict), ...])"""
    core.use_repo()
    viol, n, dep = [], 0, 0
    for variant, vc, batch in chunk:
        terms = [t for t, _ in batch]
        o = observe(terms, variant)
        n += len(batch)
        fine = False
        if vc == "accept":
            fine = o["stage"] == "ok" and all(o["kinds"][i] == v for i, (_, v) in enumerate(batch))
        else:
            fine = o["stage"] in ("definition", "instantiation") and o["rejected"] == list(range(len(batch)))
        if fine:
            continue
        for t, v in batch:        # locate the culprit(s) one field per class
            r = judge_single(t, v, variant)
            if r is None:
                continue
            if r[0] == "dependency":
                dep += 1
            else:
                viol.append(r)
    return viol, n, dep


def random_term(rng, depth):
    leaves = ["int", "str", "float", "bool", "none", "any", "lit", "enum", "GN", "GM"]
    if depth == 0 or rng.random() < 0.25:
        return [rng.choice(leaves)]
    op = rng.choice(list(ARITY))
    out = [op]
    for _ in range(ARITY[op]):
        out += random_term(rng, depth - 1)
    return out


def _record(chunk, arg):
    core.use_repo()
    lines = []
    for seed in chunk:
        rng = random.Random(seed)
        for _ in range(arg["n"]):
            t = random_term(rng, 3)
            variant = rng.choice(["plain", "postponed", "postponed-fwd", "inherited"])
            if variant.endswith("-fwd") and "newtype" in t:
                variant = "postponed"
            o = observe([t], variant)
            if o["stage"] == "other":
                obs = "dependency" if "mashumaro" in o["error"] else "other:" + o["error"]
            elif o["stage"] == "ok":
                obs = o["kinds"][0]
            else:
                obs = "reject" if o["rejected"] == [0] else "reject?"
            lines.append({"op": "classify", "t": t, "variant": variant, "obs": obs})
    return lines


def trace_validate(chk, lines, name="trace"):
    f = chk.wd / f"{name}.ndjson"
    with open(f, "w") as fh:
        for ln in lines:
            fh.write(json.dumps(ln) + "\n")
    cfg = "INIT Init\nNEXT Next\nPOSTCONDITION Done\nCHECK_DEADLOCK FALSE\n"
    r = tlc.run(chk.wd, "Trace_Typing", cfg, workers=1, timeout=3000, env={"TRACE_FILE": str(f)})
    chk.note_tlc(f"Trace_Typing/{name}", r, "trace-validation")
    return sorted(tlc.rejected(r, len(lines), "Trace_Typing"))


def run(chk: core.Check):
    quick = chk.tier == "quick"
    chk.rule = ("Gen: every annotation term of depth <= D over {int, str, float, bool, None, Any, Literal, Enum, node class, "
                "node subclass} x {NewType, tuple[X, ...], tuple[X, Y], frozenset, Sequence, Mapping, list, dict, set, unions of "
                "2 / 3} (TLC, exhaustive; verdict from Typing!Classify), each defined as a dataclass field in the variants "
                "plain / postponed annotations / forward references defined later (plain and postponed) / NewType-wrapped / "
                "inherited / re-declared in a subclass, eight same-verdict fields per class (culprits re-run one per class): "
                "InvalidFieldAnnotations at definition or first instantiation, or classification through get_child_fields / "
                "get_property_fields; nothing else may escape. Non-trivial: terms with at least one constructor. Trace: random "
                "terms of depth <= 3 in four variants, validated by Trace_Typing.tla.")
    raw = gen(chk, "classify", 1 if quick else 2, "classify")
    if quick:
        raw = raw + gen(chk, "classify", 2, "classify-few-leaves", FEW_LEAVES)
    cases = list({tuple(c["t"]): c for c in (tlc.decode(x) for x in raw)}.values())
    chk.bounds = {"depth": "1 over all ten leaves + 2 over {int, None, node, node subclass}" if quick else 2, "terms": len(cases), "variants": VARIANTS}
    chk.sample(cases[len(cases) // 2])
    jobs = []
    for variant in VARIANTS:
        for vc in ("accept", "reject"):
            sel = [(c["t"], c["exp"]["verdict"]) for c in cases if (c["exp"]["verdict"] == "reject") == (vc == "reject")
                   and (not variant.endswith("-fwd") or (has_node(c["t"]) and "newtype" not in c["t"]))]
            for i in range(0, len(sel), 8):
                jobs.append((variant, vc, sel[i:i + 8]))
    rng = random.Random(chk.seed)
    rng.shuffle(jobs)
    dep = 0
    for viol, n, d in core.parallel(_replay, jobs, {}, chunk=8):
        chk.evaluations += n
        dep += d
        for clause, detail, case in viol:
            chk.add(core.Violation(clause, case, detail))
    chk.replayed += sum(len(j[2]) for j in jobs)
    chk.notes["not_compared_dependency_failures"] = dep
    for c in cases:
        if len(c["t"]) > 1:
            chk.nontrivial.add(tuple(c["t"]))
    chk.exhaustive = True
    seeds = [rng.randrange(1 << 30) for _ in range(32 if quick else 320)]
    lines = []
    for ls in core.parallel(_record, seeds, {"n": 25}):
        lines.extend(ls)
    judged = [ln for ln in lines if ln["obs"] in ("child", "prop", "reject")]
    for ln in lines:
        if ln["obs"].startswith("other:") or ln["obs"] == "reject?":
            chk.add(core.Violation("trace-stray", {"m": "typing-trace", **ln}, f"{ln['variant']} {ln['t']}: {ln['obs']}"))
    rej = trace_validate(chk, judged)
    core.canary(chk, judged, trace_validate, what="Trace_Typing", skip=set(rej))
    chk.traces_accepted += len(judged) - len(rej)
    chk.evaluations += len(judged)
    for i in rej[:25]:
        ln = judged[i - 1]
        chk.add(core.Violation("trace-classify", {"m": "typing-trace", **ln},
                               f"{ln['variant']} {ln['t']}: observed {ln['obs']}, Typing.tla says otherwise"))


def replay(chk, data):
    core.use_repo()
    case = data["case"]
    if case["m"] == "typing-trace":
        o = observe([case["t"]], case["variant"])
        obs = o["kinds"].get(0) if o["stage"] == "ok" else ("reject" if o["rejected"] == [0] else "other:" + o["error"])
        if obs.startswith("other") or trace_validate(chk, [{"op": "classify", "t": case["t"], "variant": case["variant"], "obs": obs}], "replay"):
            chk.add(core.Violation(data["clause"], case, f"still: {obs}"))
        return
    r = judge_single(case["t"], case["verdict"], case["variant"])
    if r is not None and r[0] != "dependency":
        chk.add(core.Violation(r[0], r[2], r[1]))
