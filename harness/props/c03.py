"""C03 Registry holds exactly the live, not-detached nodes under unique ids."""
from . import registry

PID = "C03"


def run(chk):
    chk.rule = ("MC: the Registry machine (spec/Registry.tla), every interleaving of New / twin New / replace (ok, "
                "failing) / dataclasses.replace / duplicate / detach / detach_self / drop / hold on 3 slots, with "
                "injective and all-colliding id digests, slot symmetry. Gen: every transition of those instances "
                "exported with a shortest witness history and replayed against the library (registry membership, "
                "get_any / get per class and strictness, id partition, id determinism, detach_self result, dead "
                "nodes collected); plus TLC-simulated behaviours of a 4-slot instance. A behaviour is non-trivial "
                "when it has at least 3 steps. Trace: random histories of 30-50 public calls on up to ~25 objects of ten "
                "classes with real ID_DIGEST_SIZE 8 / 2 / 1, recorded with alpha after every call and validated "
                "step by step by Trace_Registry.tla (RegExact, IdsUnique evaluated on every validated state).")
    chk.assumptions += ["all-colliding digests are forced by intercepting hashlib.blake2b for id digests only",
                        "CPython frees an unreachable acyclic node immediately (gc.collect() is called before a node is declared leaked)"]
    quick = chk.tier == "quick"
    registry.run_machine(chk, PID, ["leaf-unary-3", "many1-3", "picky-3"], ["leaf-unary-3", "many-3", "sub-opt-3", "origins-3", "full-3", "picky-3"],
                         "leaf-unary-4")
    registry.run_traces(chk, PID, 80 if quick else 1200, 30 if quick else 50)


def replay(chk, data):
    registry.replay(chk, data, PID)
