"""C13 Runtime type checking accepts exactly the well-typed constructions."""
from __future__ import annotations

import json
import random

from .. import core, tlc
from ..anntext import _where, make_class, value
from .c11 import FEW_LEAVES, VALS, gen, random_term, trace_validate

PID = "C13"


def construct(cls, kw, check: bool):
    """-> ("ok", node) | ("invalid", sorted field names) | ("other", text)"""
    import pyoak.config as cfg
    from pyoak.error import InvalidTypes
    old = cfg.RUNTIME_TYPE_CHECK
    cfg.RUNTIME_TYPE_CHECK = check
    try:
        return "ok", cls(**kw)
    except InvalidTypes as e:
        return "invalid", sorted(f.name for f in e.invalid_fields)
    except Exception as e:
        return "other", f"{_where(e)}{type(e).__name__}: {e}"[:200]
    finally:
        cfg.RUNTIME_TYPE_CHECK = old


def check_case(case) -> list:
    out = []
    t = case["t"]
    try:
        cls, env, src = make_class([t])
    except Exception as e:
        if "[mashumaro]" in _where(e):
            return [("dependency", "", {})]
        return [("class-definition", f"{t}: {type(e).__name__}: {e}", {"m": "conform", "t": t, "exp": {"vals": []}})]
    for vc in case["exp"]["vals"]:
        if vc["open"]:
            continue
        val, _ = value(vc["v"], env)
        st, res = construct(cls, {"f0": val}, True)

        def bad(clause, detail):
            out.append((clause, detail, {"m": "conform", "t": t, "exp": {"kind": case["exp"]["kind"], "vals": [vc]}, "source": src}))
        if st == "other":
            bad("stray-exception", f"{t} value {vc['v']}: {res}")
            continue
        if vc["ok"] and st != "ok":
            bad("valid-value-rejected", f"annotation {t}: value {vc['v']} ({val!r}) conforms but InvalidTypes{res} was raised")
            continue
        if not vc["ok"] and st == "ok":
            bad("invalid-value-accepted", f"annotation {t}: value {vc['v']} ({val!r}) does not conform but the node was built")
            continue
        if not vc["ok"] and res != ["f0"]:
            bad("invalid_fields", f"annotation {t}: value {vc['v']}: invalid_fields = {res}, expected ['f0']")
        if vc["ok"]:
            st2, res2 = construct(cls, {"f0": val}, False)
            if st2 != "ok":
                bad("unchecked-differs", f"annotation {t} value {vc['v']}: fails with checking disabled: {res2}")
            elif not (res2 == res and res2.content_id == res.content_id and type(res2.f0) is type(res.f0)):
                bad("unchecked-differs", f"annotation {t} value {vc['v']}: node built with checking disabled differs")
    return out


def check_multi(cases, rng) -> list:
    """three fields in one class: invalid_fields must be exactly the non-conforming ones"""
    out = []
    try:
        cls, env, src = make_class([c["t"] for c in cases])
    except Exception:
        return out
    for _ in range(12):
        picks = [rng.choice(c["exp"]["vals"]) for c in cases]
        if any(p["open"] for p in picks):
            continue
        kw = {f"f{i}": value(p["v"], env)[0] for i, p in enumerate(picks)}
        exp = sorted(f"f{i}" for i, p in enumerate(picks) if not p["ok"])
        st, res = construct(cls, kw, True)
        case = {"m": "conform-multi", "cases": [{"t": c["t"], "exp": {"vals": [p]}} for c, p in zip(cases, picks)], "source": src}
        if st == "other":
            out.append(("stray-exception", f"{[c['t'] for c in cases]}: {res}", case))
        elif (st == "ok") != (not exp) or (st == "invalid" and res != exp):
            out.append(("invalid_fields-multi", f"annotations {[c['t'] for c in cases]} values {[p['v'] for p in picks]}: "
                        f"{'built' if st == 'ok' else 'invalid_fields=' + str(res)}, expected {exp or 'built'}", case))
    return out


def _replay(chunk, arg):
    core.use_repo()
    rng = random.Random(arg["seed"])
    viol, n, dep = [], 0, 0
    cases = [tlc.decode(x) for x in chunk]
    for case in cases:
        for v in core.safe(check_case, case, case):
            if v[0] == "dependency":
                dep += 1
            else:
                viol.append(v)
        n += len(case["exp"]["vals"])
    for i in range(0, len(cases) - 2, 3):
        viol.extend(core.safe(check_multi, {"m": "conform-multi"}, cases[i:i + 3], rng))
        n += 12
    return viol, n, dep


def _record(chunk, arg):
    from pyoak.typing import is_instance
    core.use_repo()
    lines = []
    for seed in chunk:
        rng = random.Random(seed)
        for _ in range(arg["n"]):
            t = random_term(rng, 3)
            if "mapping" in t:
                continue
            try:
                cls, env, src = make_class([t])
                cls.get_child_fields()
            except Exception:
                continue        # rejected annotations are C11's business
            for v in rng.sample(VALS, 6):
                val, _ = value(list(v), env)
                st, res = construct(cls, {"f0": val}, True)
                if st == "other":
                    lines.append({"op": "conform", "t": t, "v": list(v), "obs": "other:" + res})
                else:
                    lines.append({"op": "conform", "t": t, "v": list(v), "obs": st == "ok"})
    return lines


def run(chk: core.Check):
    quick = chk.tier == "quick"
    chk.rule = ("Gen: every accepted annotation term of depth <= D (TLC) x 26 value terms (both booleans, 0 / 1, float, strings, "
                "None, enum member, nodes of both classes, tuples / list / frozenset of these) with Typing!Conforms; one class "
                "per annotation, one construction per value with RUNTIME_TYPE_CHECK on: success or InvalidTypes naming exactly "
                "the field; with the switch off the same node must result; three-field classes mixing conforming and "
                "non-conforming values: invalid_fields exactly the non-conforming ones. Pairs the statement leaves open (bool "
                "vs float / Literal, str as Sequence, Mapping) are not compared. Non-trivial: annotations with a constructor. "
                "Trace: random accepted terms of depth <= 3 x random values, validated by Trace_Typing.tla.")
    raw = gen(chk, "conform", 1 if quick else 2, "conform")
    if quick:
        raw = list(dict.fromkeys(raw + gen(chk, "conform", 2, "conform-few-leaves", FEW_LEAVES)))
    chk.bounds = {"depth": 1 if quick else 2, "annotations": len(raw), "values": len(VALS)}
    chk.sample({k: (v if k != "exp" else {"kind": v["kind"], "vals": v["vals"][:4]}) for k, v in tlc.decode(raw[len(raw) // 2]).items()})
    dep = 0
    for viol, n, d in core.parallel(_replay, raw, {"seed": chk.seed}, chunk=30):
        chk.evaluations += n
        dep += d
        for clause, detail, case in viol:
            chk.add(core.Violation(clause, case, detail))
    chk.replayed += len(raw)
    chk.notes["not_compared_dependency_failures"] = dep
    for x in raw:
        c = tlc.decode(x)
        if len(c["t"]) > 1:
            chk.nontrivial.add(tuple(c["t"]))
    chk.exhaustive = True
    rng = random.Random(chk.seed + 41)
    lines = []
    for ls in core.parallel(_record, [rng.randrange(1 << 30) for _ in range(32 if quick else 320)], {"n": 20}):
        lines.extend(ls)
    judged = [ln for ln in lines if isinstance(ln["obs"], bool)]
    for ln in lines:
        if not isinstance(ln["obs"], bool) and "[mashumaro]" not in ln["obs"]:
            chk.add(core.Violation("trace-stray", {"m": "conform-trace", **ln}, f"{ln['t']} value {ln['v']}: {ln['obs']}"))
    rej = trace_validate(chk, judged)
    core.canary(chk, judged, trace_validate, what="Trace_Typing", skip=set(rej))
    chk.traces_accepted += len(judged) - len(rej)
    chk.evaluations += len(judged)
    for i in rej[:25]:
        ln = judged[i - 1]
        chk.add(core.Violation("trace-conform", {"m": "conform-trace", **ln},
                               f"annotation {ln['t']} value {ln['v']}: built={ln['obs']}, Typing.tla says otherwise"))


def replay(chk, data):
    core.use_repo()
    case = data["case"]
    if case["m"] == "conform":
        for clause, detail, c in check_case(case):
            if clause != "dependency":
                chk.add(core.Violation(clause, c, detail))
    elif case["m"] == "conform-multi":
        cls, env, src = make_class([c["t"] for c in case["cases"]])
        kw = {f"f{i}": value(c["exp"]["vals"][0]["v"], env)[0] for i, c in enumerate(case["cases"])}
        exp = sorted(f"f{i}" for i, c in enumerate(case["cases"]) if not c["exp"]["vals"][0]["ok"])
        st, res = construct(cls, kw, True)
        if st == "other" or (st == "ok") != (not exp) or (st == "invalid" and res != exp):
            chk.add(core.Violation(data["clause"], case, f"still: {st} {res if st != 'ok' else ''} expected {exp}"))
    else:
        cls, env, src = make_class([case["t"]])
        st, res = construct(cls, {"f0": value(case["v"], env)[0]}, True)
        ln = {"op": "conform", "t": case["t"], "v": case["v"], "obs": st == "ok"}
        if st == "other" or trace_validate(chk, [ln], "replay"):
            chk.add(core.Violation(data["clause"], case, f"still: {st}"))
