"""Shared by C18 / C19: running programs of legacy operations, projecting the observable state,
deduplicating observed transitions and having LegacyMonitor.tla judge them."""
from __future__ import annotations

import dataclasses
import hashlib
import itertools
import sys
import json
import random
import warnings

from .. import core, inst, tlc, zoo
from ..heap import World

ZOO = "legacy"
ALLOPS = {"create", "attach", "detach", "detach_self", "replace_prop", "replace_kids", "replace_bad", "replace_with",
          "replace_with_none", "duplicate"}
TRANSFORM_OPS = {"tvisit", "texec"}
TRULES = ("keep", "bump", "fresh", "drop", "boom")      # + "use" (transformers only): an existing node handed back




def _O(op, c="", a=0, b=0, kids=(), atom=0, mode=""):
    return dict(op=op, c=c, a=a, b=b, kids=list(kids), atom=atom, mode=mode)


# programs that are always run (both tiers): the shortest witnesses of the recorded findings, so that a finding is
# reported (or seen to be gone) whatever the generated families happen to contain
FIXED_PROGRAMS = [
    # transformer-partial-effects: the first leaf is removed, the second one sits in a required field
    [_O("create", "LLeaf", mode="plain"), _O("create", "LLeaf", mode="plain"), _O("create", "LUnary", kids=[2], mode="plain"),
     _O("create", "LMany", kids=[1, 3], mode="plain"), _O("texec", a=4, atom=0, mode="drop")],
    # visitor-partial-effects: a detached receiver whose attached first child is replaced by its clone before the second raises
    [_O("create", "LLeaf", atom=0, mode="detached"), _O("create", "LLeaf", atom=1, mode="plain"),
     _O("create", "LMany", kids=[2, 1], mode="detached"), _O("tvisit", a=3, atom=0, mode="boom")],
    # transformer-partial-effects with a refused id hand-over (the leaf sits at two positions of a detached receiver)
    [_O("create", "LLeaf", atom=0, mode="detached"), _O("create", "LMany", kids=[1], mode="plain"),
     _O("create", "LMany", kids=[1, 2], mode="detached"), _O("texec", a=3, atom=0, mode="fresh")],
    # partial-attach-effects
    [_O("create", "LLeaf", mode="plain"), _O("create", "LUnary", kids=[1], mode="plain"),
     _O("create", "LMany", kids=[2, 1], mode="plain")],
    # id-twin-nested
    [_O("create", "LLeaf", mode="detached"), _O("duplicate", a=1, mode="detached"), _O("create", "LUnary", kids=[1], mode="detached"),
     _O("replace_with", a=2, b=3)],
]


class UserBoom(Exception):
    """raised by the `boom` rule inside a user transformation"""
KIDFIELD = {"LUnary": "child", "LOpt": "child", "LMany": "items", "LList": "elems"}


def world():
    warnings.simplefilter("ignore")
    return World(zoo.LEGACY, "plain", legacy=True)


def documented():
    from pyoak.legacy import error as E
    return (E.ASTNodeDuplicateChildrenError, E.ASTNodeParentCollisionError, E.ASTNodeRegistryCollisionError,
            E.ASTNodeIDCollisionError, E.ASTNodeReplaceError, E.ASTNodeReplaceWithError, E.ASTTransformError)


class Runner:
    """executes one program; handles h1.. name the nodes operations returned"""

    def __init__(self, W: World):
        from pyoak.legacy.node import AwareASTNode
        self.W = W
        self.N = AwareASTNode
        self.nodes: list = []          # handle i -> object (index i - 1)
        self.extra: list = []          # nodes created inside operations that no path from a returned node names: x1, x2, ...
        self.paths: dict[int, str] = {}  # id(obj) -> h<i>/<field><index>/... for the copies below a returned node
        self.keep: list = []
        self.idnum: dict[str, int] = {}
        self.cidnum: dict[str, int] = {}
        self.errs = documented()

    def name(self, o):
        if o is None:
            return "none"
        for i, x in enumerate(self.nodes):
            if x is o and x is not None:
                return f"h{i + 1}"
        if id(o) in self.paths:
            return self.paths[id(o)]
        for i, x in enumerate(self.extra):
            if x is o:
                return f"x{i + 1}"
        return "?foreign"

    def name_below(self, ret, nm: str, seen=None):
        """not yet named nodes below a returned node are called after their position on the first path (depth first,
        declaration order) from it (Legacy.tla: KidName / FindPath)"""
        seen = set() if seen is None else seen
        if id(ret) in seen:
            return
        seen.add(id(ret))
        for c, f, i in ret.get_child_nodes_with_field():
            cn = f"{nm}/{f.name}{'' if i is None else i}"
            if self.name(c) == "?foreign":
                self.paths[id(c)] = cn
                self.keep.append(c)
            self.name_below(c, cn, seen)

    def canon(self, h: int) -> int:
        if not h:
            return h
        o = self.nodes[h - 1]
        for i, x in enumerate(self.nodes):
            if x is o:
                return i + 1
        return h

    def discover(self):
        """name every node reachable from the handles (and their parents)"""
        stack = [o for o in self.nodes if o is not None] + list(self.N._nodes.values())
        seen = set()
        while stack:
            o = stack.pop()
            if id(o) in seen:
                continue
            seen.add(id(o))
            if self.name(o) == "?foreign":
                self.extra.append(o)
            for f in dataclasses.fields(o):
                v = getattr(o, f.name, None)
                for x in (v if isinstance(v, (list, tuple)) else [v]):
                    if isinstance(x, self.N):
                        stack.append(x)
            p = o.parent
            if p is not None:
                stack.append(p)

    def all_named(self):
        # an operation may return a node that already has a handle (a transformation that changed nothing):
        # the object keeps its first name
        out, seen = [], set()
        for i, o in enumerate(self.nodes):
            if o is not None and id(o) not in seen:
                seen.add(id(o))
                out.append((f"h{i + 1}", o))
        out += [(self.paths[id(o)], o) for o in self.keep]
        return out + [(f"x{i + 1}", o) for i, o in enumerate(self.extra)]

    def cname(self, o):
        return type(o).__name__

    def kidval(self, c, ks):
        objs = [self.nodes[k - 1] for k in ks]
        if c in ("LUnary", "LOpt"):
            return objs[0] if objs else None
        return tuple(objs) if c == "LMany" else list(objs)

    # ---- operations
    def apply(self, op: dict):
        """-> (outcome, returned node or None); outcome 'ok' | documented error class name | 'stray:<..>'"""
        W = self.W
        kind = op["op"]
        ret = None
        try:
            if kind == "create":
                c = op["c"]
                kw = {"origin": W.origins[0]}
                if c in ("LLeaf", "LSub"):
                    kw["a"] = W.prop_value(c, W.zi.field(c, "a"), op["atom"])
                else:
                    ks = op["kids"] if op["kids"] != [] else []
                    if ks or c != "LOpt":
                        kw[KIDFIELD[c]] = self.kidval(c, ks)
                if op["mode"] == "detached":
                    kw["create_detached"] = True
                elif op["mode"] == "unique":
                    kw["ensure_unique_id"] = True
                ret = W.cls(c)(**kw)
            else:
                a = self.nodes[op["a"] - 1]
                if kind == "attach":
                    a.attach()
                elif kind == "detach":
                    a.detach()
                elif kind == "detach_self":
                    a.detach_self()
                elif kind == "replace_prop":
                    ret = a.replace(a=W.prop_value(self.cname(a), W.zi.field(self.cname(a), "a"), op["atom"]))
                elif kind == "replace_kids":
                    c = self.cname(a)
                    ks = op["kids"] if op["kids"] != [] else []
                    ret = a.replace(**{KIDFIELD[c]: self.kidval(c, ks)})
                elif kind == "replace_bad":
                    a.replace(content_id="x")
                elif kind == "replace_with":
                    a.replace_with(self.nodes[op["b"] - 1])
                elif kind == "replace_with_none":
                    a.replace_with(None)
                elif kind == "duplicate":
                    ret = a.duplicate(as_detached_clone=(op["mode"] == "detached"))
                elif kind == "tvisit":
                    ret = self.visitor(op["mode"], op["atom"]).transform(a)
                elif kind == "texec":
                    ret = self.transformer(op["mode"], op["atom"], self.nodes[op["b"] - 1] if op["b"] else None).execute(a)
                else:
                    raise ValueError(kind)
        except self.errs as e:
            return type(e).__name__, None
        except Exception as e:
            return f"stray:{type(e).__name__}: {e}"[:200], None
        return "ok", ret

    # ---- user transformations (C18 / C19: "transform visitors and transformers")
    def rule(self, rule: str, atom: int, use=None):
        """what the user's code does to a leaf-like node whose property a is pool atom `atom`"""
        W = self.W
        fa = W.zi.field("LLeaf", "a")
        sel = W.prop_value("LLeaf", fa, atom)

        def act(node):
            if node.a != sel or rule == "keep":
                return node
            if rule == "bump":
                return node.replace(a=W.prop_value("LLeaf", fa, (atom + 1) % 3))
            if rule == "fresh":
                return W.cls("LLeaf")(a=W.prop_value("LLeaf", fa, 2), origin=W.origins[0])
            if rule == "drop":
                return None
            if rule == "use":
                return use          # an existing node is handed back
            raise UserBoom()
        return act

    def visitor(self, rule: str, atom: int):
        from pyoak.legacy.node import ASTTransformVisitor
        act = self.rule(rule, atom)

        class V(ASTTransformVisitor):
            def visit_LLeaf(self, node):        # LSub too: dispatch walks the mro
                return act(node)
        return V()

    def transformer(self, rule: str, atom: int, use=None):
        from pyoak.legacy.node import ASTTransformer
        act = self.rule(rule, atom, use)

        class T(ASTTransformer):
            def transform(self, node):
                return act(node) if isinstance(node, self_cls) else node
        self_cls = self.W.cls("LLeaf")
        return T()

    def drop_inadmissible(self, op) -> bool:
        """a `drop` rule used with the visitor on a tree where a selected leaf sits in a required single field
        (or is the start node of a sequence-less position) is a misuse, not an operation the library must survive"""
        if op["op"] != "tvisit" or op["mode"] != "drop":
            return False
        W = self.W
        sel = W.prop_value("LLeaf", W.zi.field("LLeaf", "a"), op["atom"])
        stack, seen = [self.nodes[op["a"] - 1]], set()
        while stack:
            o = stack.pop()
            if id(o) in seen:
                continue
            seen.add(id(o))
            if self.cname(o) == "LUnary" and isinstance(o.child, W.cls("LLeaf")) and o.child.a == sel:
                return True
            stack.extend(o.get_child_nodes())
        return False

    # ---- projection
    def fresh_cid(self, o, memo):
        """content id of an independently built (detached) equal tree"""
        if id(o) in memo:
            return memo[id(o)]
        kw = {}
        for f in dataclasses.fields(o):
            if not f.init or f.name in ("id", "original_id", "id_collision_with"):
                continue
            v = getattr(o, f.name)
            if isinstance(v, self.N):
                v = self._clone(v, memo)
            elif isinstance(v, (list, tuple)):
                v = type(v)(self._clone(x, memo) if isinstance(x, self.N) else x for x in v)
            kw[f.name] = v
        # explicit unique ids: detached twins would otherwise share an id and be refused as duplicate children
        clone = type(o)(**kw, create_detached=True, id=f"verif-clone-{len(memo)}-{id(o)}")
        memo[id(o)] = clone
        return clone

    def _clone(self, o, memo):
        return self.fresh_cid(o, memo)

    def alpha(self):
        W = self.W
        # make the calculated xpath current for every attached root
        self.discover()
        for _, o in self.all_named():
            if o.is_attached_root:
                try:
                    o.calculate_xpath()
                except Exception:
                    pass        # an inconsistent tree: the structural clauses of the monitor will name it
        self.discover()
        S = {}
        memo: dict = {}
        for nm, o in self.all_named():
            c = self.cname(o)
            p = {}
            for f in W.zi.prop_fields(c):
                val = getattr(o, f["n"])
                pool = W_pool(W, f)
                idx = [j for j, x in enumerate(pool) if type(x) is type(val) and x == val]
                p[f["n"]] = idx[0] if idx else 99
            k = {}
            for f in W.zi.child_fields(c):
                v = getattr(o, f["n"])
                k[f["n"]] = [self.name(x) for x in v] if isinstance(v, (list, tuple)) else self.name(v)
            det = bool(o.detached)
            par = o.parent
            try:
                # a node that shares its id with an ancestor can be its own parent: ancestors() then never ends
                anc = [self.name(x) for x in itertools.islice(o.ancestors(), 65)]
                if len(anc) == 65:
                    anc, depth = ["?cycle"], -1
                else:
                    depth = o.get_depth()
            except Exception:
                anc, depth = ["?error"], -1
            xp = []
            if not det and o.xpath:
                import re
                for j, (f2, i2, c2) in enumerate(re.findall(r"/@(\w+)\[(\d+)\](\w+)", o.xpath)):
                    xp.append(["none", -1, c2] if j == 0 else [f2, int(i2), c2])
                # a single (non-sequence) position is spelled [0]: restore index None = -1 from the parent's field
                cur = o
                for j in range(len(xp) - 1, 0, -1):
                    if cur.parent_index is None:
                        xp[j][1] = -1
                    cur = cur.parent if cur.parent is not None else cur
            try:
                cidok = self.fresh_cid(o, memo).content_id == o.content_id
            except Exception:
                cidok = False
            S[nm] = {
                "c": c, "p": p, "k": k, "o": 0,
                "idc": self.idnum.setdefault(o.id, len(self.idnum)),
                "oidc": -1 if o.original_id is None else self.idnum.setdefault(o.original_id, len(self.idnum)),
                "id": short_id(o.id), "oid": short_id(o.original_id), "coll": short_id(o.id_collision_with),
                "pid": short_id(getattr(o, "_parent_id", None)),
                "det": det, "par": self.name(par), "pf": o.parent_field.name if o.parent_field else "none",
                "pi": -1 if o.parent_index is None else o.parent_index,
                "cidc": self.cidnum.setdefault(o.content_id, len(self.cidnum)), "cidok": cidok,
                "anc": anc, "depth": depth, "xp": xp,
            }
        return S

    def registry(self) -> dict:
        return {short_id(i): self.name(o) for i, o in list(self.N._nodes.items())}

    def probe_digest(self, op) -> str:
        """the automatic id the library computes for a create operation's arguments, read off a detached probe
        (the library is its own digest oracle; the probe touches nothing)"""
        if op["op"] in TRANSFORM_OPS and op["mode"] == "fresh":
            op = _O("create", "LLeaf", atom=2, mode="plain")       # what the `fresh` rule builds
        if op["op"] != "create":
            return ""
        try:
            out, ret = self.apply(dict(op, mode="detached"))
        except Exception:
            return ""
        return short_id(ret.id) if ret is not None else ""

    def double_placement_or_cycle(self) -> bool:
        """the C18 precondition: no node object at two positions below attached nodes, no cycles"""
        seen = set()
        for _, o in self.all_named():
            if o.detached:
                continue
            for c in o.get_child_nodes():
                if id(c) in seen:
                    return True
                seen.add(id(c))
        return False


def short_id(i):
    """ids are sha256 digests with _<n> suffixes: 12 digits of the digest are kept"""
    if i is None:
        return "none"
    head, sep, tail = i.partition("_")
    return (head[:12] if len(head) == 64 else head) + sep + tail


def W_pool(W, f):
    from .. import pools as P
    return P.POOLSETS[W.poolset][f["pool"]]


def reaches(r: Runner, start, target) -> bool:
    stack, seen = [start], set()
    while stack:
        x = stack.pop()
        if x is target:
            return True
        if id(x) in seen:
            continue
        seen.add(id(x))
        stack.extend(x.get_child_nodes())
    return False


def upchain(o) -> list:
    out, seen = [], set()
    while o is not None and id(o) not in seen and len(out) < 64:
        seen.add(id(o))
        out.append(o)
        o = o.parent
    return out


def subtree_objs(o) -> list:
    out, stack, seen = [], [o], set()
    while stack:
        x = stack.pop()
        if id(x) in seen:
            continue
        seen.add(id(x))
        out.append(x)
        stack.extend(x.get_child_nodes())
    return out


def reaches_any(start, targets) -> bool:
    tg = {id(x) for x in targets}
    stack, seen = [start], set()
    while stack:
        x = stack.pop()
        if id(x) in tg:
            return True
        if id(x) in seen:
            continue
        seen.add(id(x))
        stack.extend(x.get_child_nodes())
    return False


def _state(states: dict, obj, reg, nreg) -> str:
    """observed states are kept once (hash -> state); transitions refer to them"""
    st = {"obj": obj, "reg": reg, "nreg": nreg}
    h = hashlib.sha1(json.dumps(st, sort_keys=True).encode()).hexdigest()
    states.setdefault(h, st)
    return h


def expand(sink: dict, states: dict) -> None:
    """give every transition its states back (shared objects, nothing is copied)"""
    for ln in sink.values():
        if "pre" in ln:
            continue
        a, b = states[ln["pre_h"]], states[ln["post_h"]]
        ln.update(pre=a["obj"], post=b["obj"], regpre=a["reg"], regpost=b["reg"], nregpre=a["nreg"], nregpost=b["nreg"])


class Wit(tuple):
    """a witness program kept as (program text, number of operations): the text object is shared by all transitions
    of the program, which keeps worker results and the table of transitions small"""
    __slots__ = ()

    def prog(self):
        return tlc_prog(self[0])[: self[1]]


def tlc_prog(text: str):
    d = json.loads(text)
    d = json.loads(d) if isinstance(d, str) else d
    return d["prog"]


def run_program(W, prog, sink: dict, strays: list, states: dict | None = None, raw: str | None = None):
    """execute; add distinct transitions to sink (hash -> line)"""
    own = states is None
    states = {} if own else states
    raw = raw if raw is not None else json.dumps({"prog": prog})
    from pyoak.legacy.node import AwareASTNode
    R = Runner(W)
    clean = True
    trail: list = []        # hashes of the transitions this program went through so far
    pre_h = _state(states, R.alpha(), {}, 0)
    CREATING = ("create", "replace_prop", "replace_kids", "duplicate", "tvisit", "texec")
    for step, op in enumerate(prog):
        refs = [op["a"], op["b"]] + list(op["kids"] or [])
        if any(h and (h > len(R.nodes) or R.nodes[h - 1] is None) for h in refs):
            break       # refers to a node an earlier, rejected operation never produced
        # precondition: an operation must not build a cycle.  The new node takes the receiver's place in the receiver's
        # parent -- found through the stored link, which may point to a node that does not hold the receiver -- so
        # nothing below the argument may be the receiver or one of its parents (LegacyMC.tla: Up / Below)
        if op["op"] == "replace_kids":
            up = upchain(R.nodes[op["a"] - 1])
            if any(reaches_any(R.nodes[k - 1], up) for k in (op["kids"] or [])):
                break
        if op["op"] == "replace_with":
            a, b = R.nodes[op["a"] - 1], R.nodes[op["b"] - 1]
            if reaches_any(b, upchain(a)) or reaches(R, a, b):
                break
        if R.drop_inadmissible(op):
            break
        if op["op"] == "texec" and op["mode"] == "use":
            a, b = R.nodes[op["a"] - 1], R.nodes[op["b"] - 1]
            if reaches_any(b, upchain(a)) or reaches_any(b, subtree_objs(a)):
                break       # as for replace_with: the node handed back must not contain the receiver's tree or parents
        # a handle whose node already has an earlier handle (a transformation returned its argument) is spelled
        # with the earlier one, so that names in operations and states agree
        op = dict(op, a=R.canon(op["a"]), b=R.canon(op["b"]), kids=[R.canon(k) for k in (op["kids"] or [])])
        d = R.probe_digest(op)
        outcome, ret = R.apply(op)
        if outcome.startswith("stray:"):
            # an undocumented exception counts against the properties only in a history they speak about: successful
            # operations so far (after a rejected one that left partial effects behind, e.g., a stored parent link can
            # resolve to a node of another class, and the library then raises its own "this is a bug" RuntimeError)
            if clean:
                strays.append({"prog": prog[: step + 1], "error": outcome})
            break
        if op["op"] in CREATING:
            R.nodes.append(ret)         # None when the operation was rejected: the handle stays unusable
            if ret is not None:
                R.name_below(ret, f"h{len(R.nodes)}")
        # nodes made by the operation that are not below a returned node (an operation that failed half-way) are called
        # after their first path from the first handle that reaches them (Legacy.tla: RenameBelow / FromHandles)
        for i, o in enumerate(R.nodes):
            if o is not None:
                R.name_below(o, f"h{i + 1}")
        try:
            post = R.alpha()
        except RecursionError:
            break
        post_h = _state(states, post, R.registry(), len(AwareASTNode._nodes))
        line = {"op": op, "outcome": outcome, "pre_h": pre_h, "post_h": post_h, "clean": clean, "nm": f"h{len(R.nodes)}", "d": d}
        hsh = hashlib.sha1(json.dumps(line, sort_keys=True).encode()).hexdigest()[:16]
        if hsh not in sink:
            line["witness"] = Wit((raw, step + 1))
            line["hsh"] = hsh
            line["alts"] = []
            sink[hsh] = line
        add_alt(sink[hsh], tuple(trail), Wit((raw, step + 1)))
        trail.append(hsh)
        if outcome != "ok" or R.double_placement_or_cycle():
            clean = False
        pre_h = post_h
    if own:
        expand(sink, states)
    # detach everything so that the next program starts from an empty registry
    for o in R.nodes:
        if o is not None:
            AwareASTNode._nodes.pop(o.id, None)
    for i in list(AwareASTNode._nodes.keys()):
        AwareASTNode._nodes.pop(i, None)


MAXALTS = 6


def add_alt(line, prior, witness):
    """a transition is kept once; up to MAXALTS histories that reached it are kept with it (distinct sets of prior
    transitions), so that a later verdict "the history was already inconsistent" is only given when that holds for
    every history seen.  An alternative is the pair (prior transitions, witness); the hashes are interned: millions of
    them are kept"""
    prior = tuple(sys.intern(x) for x in prior)
    ps = set(prior)
    alts = line["alts"]
    for a in alts:
        if set(a[0]) == ps:
            return
    if len(alts) < MAXALTS:
        alts.append((prior, witness))
    else:
        # prefer short histories: fewer earlier transitions that could have broken something
        j = max(range(MAXALTS), key=lambda x: len(alts[x][0]))
        if len(prior) < len(alts[j][0]):
            alts[j] = (prior, witness)


def merge_sink(dst, src):
    for h, ln in src.items():
        if h not in dst:
            ln["alts"] = [(tuple(sys.intern(x) for x in a[0]), a[1]) for a in ln["alts"]]
            dst[sys.intern(h)] = ln
        else:
            for a in ln["alts"]:
                add_alt(dst[h], a[0], a[1])


def _exec(chunk, arg):
    core.use_repo()
    W = world()
    sink: dict = {}
    strays: list = []
    states: dict = {}
    n = 0
    for raw in chunk:
        prog = tlc.decode(raw)["prog"] if isinstance(raw, str) else raw
        run_program(W, prog, sink, strays, states, raw if isinstance(raw, str) else None)
        n += len(prog)
    return sink, strays, n, states


def random_program(rng, length, classes):
    prog, cls = [], []
    for _ in range(length):
        H = list(range(1, len(cls) + 1))
        r = rng.random()

        def kids_for(c):
            if c == "LUnary":
                # prefer the newest node: chains get deep
                return [H[-1] if rng.random() < 0.7 else rng.choice(H)] if H else None
            if c == "LOpt":
                leafs = [h for h in H if cls[h - 1] in ("LLeaf", "LSub")]
                return [rng.choice(leafs)] if leafs and rng.random() < 0.6 else []
            return [rng.choice(H) for _ in range(rng.randrange(0, 4))] if H else []
        if r < 0.4 or not H:
            c = rng.choice(classes)
            if c in ("LLeaf", "LSub"):
                op = dict(op="create", c=c, a=0, b=0, kids=[], atom=rng.randrange(2), mode=rng.choice(["plain", "plain", "plain", "detached", "unique"]))
            else:
                ks = kids_for(c)
                if ks is None:
                    continue
                op = dict(op="create", c=c, a=0, b=0, kids=ks, atom=0, mode=rng.choice(["plain", "plain", "plain", "detached", "unique"]))
            cls.append(c)
        else:
            a = rng.choice(H)
            kind = rng.choice(["attach", "detach", "detach_self", "replace_prop", "replace_kids", "replace_bad", "replace_with",
                               "replace_with_none", "duplicate", "duplicate", "replace_with", "replace_kids", "tvisit", "texec"])
            op = dict(op=kind, c="", a=a, b=0, kids=[], atom=0, mode="")
            if kind == "replace_prop":
                if cls[a - 1] not in ("LLeaf", "LSub"):
                    continue
                op["atom"] = rng.randrange(3)
                cls.append(cls[a - 1])
            elif kind == "replace_kids":
                if cls[a - 1] in ("LLeaf", "LSub"):
                    continue
                ks = kids_for(cls[a - 1])
                if ks is None:
                    continue
                op["kids"] = ks
                cls.append(cls[a - 1])
            elif kind == "replace_with":
                others = [h for h in H if h != a]
                if not others:
                    continue
                op["b"] = rng.choice(others)
            elif kind == "duplicate":
                op["mode"] = rng.choice(["attached", "detached"])
                cls.append(cls[a - 1])
            elif kind in TRANSFORM_OPS:
                op["mode"] = rng.choice(TRULES if kind == "tvisit" else TRULES[:4])
                op["atom"] = rng.randrange(2)
                cls.append(cls[a - 1])
        prog.append(op)
    return prog


def _exec_random(chunk, arg):
    core.use_repo()
    W = world()
    sink: dict = {}
    strays: list = []
    states: dict = {}
    n = 0
    for seed in chunk:
        rng = random.Random(seed)
        prog = random_program(rng, arg["length"], ["LLeaf", "LSub", "LUnary", "LOpt", "LMany", "LList"])
        run_program(W, prog, sink, strays, states)
        n += len(prog)
    return sink, strays, n, states


def gen_scripts(chk, maxlen, maxhandles, classes, maxkids, name, ops=None, modes=("plain", "detached", "unique"),
                dupmodes=("attached", "detached"), atoms=(0, 1), trules=TRULES):
    mod, cfg = inst.instance("I_LegacyScripts", "LegacyScripts",
                             dict(MaxLen=maxlen, MaxHandles=maxhandles, GenClasses=set(classes), MaxKids=maxkids, Ops=set(ops or ALLOPS),
                                  Modes=set(modes), DupModes=set(dupmodes), Atoms=set(atoms), TRules=set(trules)),
                             invariants=["EmitInv"])
    (chk.wd / "I_LegacyScripts.tla").write_text(mod)
    r = tlc.run(chk.wd, "I_LegacyScripts", cfg, workers=core.NPROC, timeout=3000, heap="8g")
    tlc.require_clean(r, "LegacyScripts")
    chk.note_tlc(f"LegacyScripts/{name}", r, "gen")
    return r.json_raw


STRIP = ("witness", "alts", "hsh", "pre_h", "post_h")


def trace_shards(chk, module, lines, name):
    """run a trace specification over `lines`, split over parallel TLC processes (one worker each: the register
    protocol needs it) -> {line number (1-based): info}"""
    import concurrent.futures as cf
    import shutil
    n = len(lines)
    if n == 0:
        return {}
    # shards of at most 6000 lines (a TLC process holds its whole file as TLA+ values), at most 10 processes at a time
    k = max(1, min(core.NPROC, (n + 1499) // 1500), (n + 5999) // 6000)
    size = (n + k - 1) // k
    cfg = "INIT Init\nNEXT Next\nPOSTCONDITION Done\nCHECK_DEADLOCK FALSE\n"

    def one(j):
        part = lines[j * size:(j + 1) * size]
        wd = chk.wd / f"{name}-{j}"
        if wd.exists():
            shutil.rmtree(wd)
        wd.mkdir()
        for f in chk.wd.glob("*.tla"):
            shutil.copy(f, wd / f.name)
        fn = wd / "trace.ndjson"
        with open(fn, "w") as fh:
            for ln in part:
                fh.write(json.dumps({a: b for a, b in ln.items() if a not in STRIP}) + "\n")
        r = tlc.run(wd, module, cfg, workers=1, timeout=3000, env={"TRACE_FILE": str(fn)}, heap="2500m", gc_threads=1)
        rej = tlc.rejected(r, len(part), module)
        shutil.rmtree(wd, ignore_errors=True)
        return j, r, rej
    out = {}
    with cf.ThreadPoolExecutor(max_workers=min(k, 10)) as ex:
        for j, r, rej in ex.map(one, range(k)):
            chk.note_tlc(f"{module}/{name}/{j + 1}of{k}", r, "trace-validation")
            for i, info in rej.items():
                out[j * size + i] = info
    return out


def monitor(chk, lines, name="monitor"):
    """LegacyMonitor.tla -> {line number: (outcome, set of clause names)}"""
    return {i: (info[0], set(info[1])) for i, info in trace_shards(chk, "Trace_Legacy", lines, name).items()}


MACHINE_OPS = ALLOPS | {"texec", "tvisit"}


def machine(chk, lines, name="machine"):
    """Legacy.tla evaluated on every line -> {line number: {"conform", "partial", "diff"}} for the lines that are not
    plainly conform (conform, and no named deviation of the model involved)"""
    return {i: {"conform": bool(info[0]), "partial": bool(info[1]), "diff": info[2]}
            for i, info in trace_shards(chk, "Trace_LegacyMachine", lines, name).items()}


MC_OPS = {"create", "attach", "detach", "detach_self", "replace_prop", "replace_kids", "replace_bad", "replace_with",
          "replace_with_none", "duplicate"}
MC_INVARIANTS = {"C18": ["C18ChildrenAttached", "C18ParentBackLink", "C18CidFresh"],
                 "C19": ["C19Frame", "C19EarlyErrorsClean", "C19VisitorAtomic"]}


def tla_prog(prog) -> str:
    def one(o):
        kids = "<<" + ", ".join(str(k) for k in o["kids"]) + ">>"
        return (f'[op |-> "{o["op"]}", c |-> "{o["c"]}", a |-> {o["a"]}, b |-> {o["b"]}, kids |-> {kids}, '
                f'atom |-> {o["atom"]}, mode |-> "{o["mode"]}"]')
    return "<<" + ", ".join(one(o) for o in prog) + ">>"


def mc_design(chk, pid, name, maxops, maxhandles, classes, maxkids, modes=("plain", "detached", "unique"),
              dupmodes=("attached", "detached"), atoms=(0, 1), ops=None, emit=True, invariants=None, prelude=(), workers=None,
              trules=TRULES):
    """TLC on the machine itself (LegacyMC.tla): the property as an invariant of the design, and the witness program
    of every transition taken.  Runs in a work directory of its own (several instances run side by side)."""
    import shutil
    inv = MC_INVARIANTS[pid] if invariants is None else invariants
    mod, cfg = inst.instance("I_LegacyMC", "LegacyMC",
                             dict(MaxOps=maxops, MaxHandles=maxhandles, GenClasses=set(classes), MaxKids=maxkids,
                                  Ops=set(ops or MC_OPS), Modes=set(modes), DupModes=set(dupmodes), Atoms=set(atoms),
                                  Prelude="@tla:" + tla_prog(prelude), TRules=set(trules)),
                             invariants=inv, view="View", action_constraints=["Emit"] if emit else [])
    wd = chk.wd / f"mc-{name}"
    if wd.exists():
        shutil.rmtree(wd)
    wd.mkdir()
    for f in chk.wd.glob("*.tla"):
        shutil.copy(f, wd / f.name)
    (wd / "I_LegacyMC.tla").write_text(mod)
    r = tlc.run(wd, "I_LegacyMC", cfg, workers=workers or core.NPROC, timeout=3000, heap="6g", gc_threads=4)
    shutil.rmtree(wd, ignore_errors=True)
    return r


def collect(chk, results):
    sink, strays, states = {}, [], {}
    for s, st, n, sts in results:
        merge_sink(sink, s)
        strays.extend(st)
        for h, x in sts.items():
            states.setdefault(h, x)
        chk.evaluations += n
    expand(sink, states)
    return sink, strays


def run(chk: core.Check, pid: str, classify):
    quick = chk.tier == "quick"
    # (a) the design: TLC on Legacy.tla itself, the property as invariants (deviations as explicit guards), and one
    #     witness program per transition of the model
    raws = []
    ALL3 = ("plain", "detached", "unique")
    # (name, MaxOps, MaxHandles, classes, MaxKids, modes, atoms, ops (None = all modelled), dup modes, prelude)
    TUPLE = [_O("create", "LLeaf", mode="plain"), _O("create", "LLeaf", mode="plain"), _O("create", "LMany", kids=[1, 2], mode="plain"),
             _O("create", "LLeaf", mode="plain"), _O("create", "LUnary", kids=[4], mode="plain")]
    CHAIN = [_O("create", "LLeaf", mode="plain"), _O("create", "LUnary", kids=[1], mode="plain"), _O("create", "LUnary", kids=[2], mode="plain")]
    OPTPRE = [_O("create", "LLeaf", mode="plain"), _O("create", "LOpt", kids=[1], mode="plain"), _O("create", "LLeaf", mode="plain"),
              _O("create", "LUnary", kids=[3], mode="plain")]
    DETACH = {"create", "detach", "attach", "duplicate"}
    REPL = {"create", "replace_with", "replace_with_none", "detach"}
    PD = ("plain", "detached")
    TR = {"create", "tvisit", "texec"}
    TRD = {"create", "tvisit", "texec", "detach"}
    R4 = ("bump", "fresh", "drop", "boom")
    # (name, MaxOps, MaxHandles, classes, MaxKids, modes, atoms, ops (None = all but the transformations), dup modes,
    #  prelude[, witness programs exported (default True)[, rules of the user transformations]])
    if quick:
        mcs = [("abc-4", 4, 3, ["LLeaf", "LUnary", "LMany"], 2, ALL3, (0, 1), None, None, ()),
               ("opt-list-4", 4, 3, ["LLeaf", "LOpt", "LList"], 2, PD, (0,), None, None, ()),
               # long histories over few operations: detach / re-attach / duplicate chains; replacements inside tuples
               ("focus-detach-6", 6, 5, ["LLeaf", "LUnary"], 1, ("plain",), (0,), DETACH, ("attached",), ()),
               ("focus-replace-5", 5, 4, ["LLeaf", "LMany"], 2, ("plain",), (0,), REPL, ("attached",), ()),
               # every operation, two / three deep, from a state that has a tuple of two, a chain and spare nodes
               ("after-tuple-2", 7, 7, ["LLeaf", "LUnary", "LMany"], 2, PD, (0,), None, None, TUPLE),
               ("after-chain-3", 6, 6, ["LLeaf", "LUnary"], 1, PD, (0, 1), None, None, CHAIN),
               # user transformations: visitors (detached clone, then replace_with) and transformers (in place, bottom-up)
               ("transform-4", 4, 4, ["LLeaf", "LMany"], 2, ("plain",), (0,), TR, None, ()),
               ("transform-single-4", 4, 4, ["LLeaf", "LUnary", "LOpt"], 1, PD, (0,), TRD, None, (), True, ("bump", "drop", "boom")),
               ("transformer-partial-5", 5, 5, ["LLeaf", "LUnary", "LMany"], 2, ("plain",), (0,), {"create", "texec"}, None, (), True, ("drop",)),
               # a transformer whose transform() hands back an existing node (refused by type, by an existing parent, ...)
               ("transformer-use-4", 4, 4, ["LLeaf", "LUnary", "LMany"], 2, PD, (0,), {"create", "texec"}, None, (), True, ("use",)),
               ("transformer-use-after-opt-2", 6, 6, ["LLeaf", "LUnary", "LOpt"], 1, ("plain",), (0,), {"create", "texec", "detach"}, None,
                OPTPRE, True, ("use", "drop"))]
    else:
        # a trailing False: model checking only (the design's invariants at a depth whose witness programs would be
        # too many to execute)
        mcs = [("abc-4", 4, 4, ["LLeaf", "LUnary", "LMany"], 2, ALL3, (0, 1), None, None, ()),
               ("chains-6", 6, 5, ["LLeaf", "LUnary"], 1, PD, (0,), None, None, ()),
               ("opt-list-5", 5, 4, ["LLeaf", "LSub", "LOpt", "LList"], 2, PD, (0,), None, None, ()),
               ("focus-detach-7", 7, 6, ["LLeaf", "LUnary"], 1, ("plain",), (0,), DETACH, ("attached",), ()),
               ("focus-replace-6", 6, 4, ["LLeaf", "LMany"], 2, ("plain",), (0,), REPL, ("attached",), ()),
               ("after-tuple-2", 7, 7, ["LLeaf", "LUnary", "LMany"], 2, ALL3, (0, 1), None, None, TUPLE),
               ("after-chain-3", 6, 6, ["LLeaf", "LUnary"], 1, ALL3, (0, 1), None, None, CHAIN),
               ("transform-4", 4, 4, ["LLeaf", "LMany"], 2, ("plain",), (0, 1), TR, None, ()),
               ("transform-single-4", 4, 4, ["LLeaf", "LSub", "LUnary", "LOpt"], 1, PD, (0,), TRD, None, (), True, R4),
               ("transformer-partial-5", 5, 5, ["LLeaf", "LUnary", "LMany"], 2, ("plain",), (0,), {"create", "texec"}, None, (), True, ("drop",)),
               ("all-ops-4", 4, 4, ["LLeaf", "LUnary", "LMany"], 2, PD, (0, 1), MC_OPS | {"tvisit", "texec"}, None, ()),
               ("transformer-use-5", 5, 5, ["LLeaf", "LUnary", "LMany"], 2, PD, (0,), {"create", "texec"}, None, (), True, ("use",)),
               ("transformer-use-after-opt-3", 7, 7, ["LLeaf", "LUnary", "LOpt"], 1, PD, (0,), {"create", "texec", "detach"}, None,
                OPTPRE, True, ("use", "drop")),
               ("replace-kids-6", 6, 6, ["LLeaf", "LMany"], 2, ("plain",), (0,), {"create", "replace_kids"}, ("attached",), (), False),
               ("after-tuple-3", 8, 8, ["LLeaf", "LUnary", "LMany"], 2, ("plain",), (0,), None, None, TUPLE, False),
               ("after-chain-4", 7, 7, ["LLeaf", "LUnary"], 1, PD, (0,), None, None, CHAIN, False)]
    import concurrent.futures as cf

    def one_mc(spec):
        name, maxops, maxh, classes, maxkids, modes, atoms, ops, dupmodes, prelude = spec[:10]
        emit = spec[10] if len(spec) > 10 else True
        trules = spec[11] if len(spec) > 11 else TRULES
        return name, mc_design(chk, pid, name, maxops, maxh, classes, maxkids, modes=modes, atoms=atoms, ops=ops, emit=emit,
                               dupmodes=dupmodes or ("attached", "detached"), prelude=prelude, workers=max(2, core.NPROC // 3),
                               trules=trules)
    with cf.ThreadPoolExecutor(max_workers=3) as ex:
        results = list(ex.map(one_mc, mcs))
    for name, r in results:
        chk.note_tlc(f"LegacyMC/{name}", r, "mc+gen" if r.json_raw else "mc")
        if r.violated:
            chk.tlc_violation("LegacyMC-" + name, r)
        else:
            tlc.require_clean(r, "LegacyMC/" + name)
        raws += r.json_raw
    # the guards of the design invariants are not vacuous: without them TLC must find the recorded deviation again
    ung = "UnguardedC18" if pid == "C18" else "UnguardedC19"
    r = mc_design(chk, pid, "unguarded", 4 if pid == "C18" else 3, 4 if pid == "C18" else 3, ["LLeaf", "LUnary", "LMany"], 2,
                  emit=False, invariants=[ung])
    chk.note_tlc("LegacyMC/" + ung, r, "mc (expected to be violated)")
    chk.tlc_runs[-1]["ok"] = bool(r.violated)
    chk.notes["unguarded_invariant_violated_as_expected"] = bool(r.violated)
    if not r.violated:
        raise tlc.MachineryError(f"{ung} holds on LegacyMC: the model no longer shows the recorded deviation, the guarded "
                                 "invariants may be vacuous\n" + r.stdout[-1500:])
    chk.exhaustive = True
    # (b) a blind enumeration of all programs (LegacyScripts.tla tracks only the class of every handle): what is executed
    #     does not depend on the machine's idea of the state
    if quick:
        raws += gen_scripts(chk, 3, 3, ["LLeaf", "LUnary", "LMany"], 2, "len3", ops=ALLOPS | TRANSFORM_OPS, atoms=(0,))
    else:
        raws += gen_scripts(chk, 4, 3, ["LLeaf", "LUnary", "LMany"], 2, "len4")
        raws += gen_scripts(chk, 4, 4, ["LLeaf", "LSub", "LUnary", "LOpt"], 1, "transform-single-4",
                            ops={"create", "tvisit", "texec", "detach"}, modes=("plain", "detached"), atoms=(0,),
                            trules=("bump", "fresh", "drop", "boom"))
    raws += [json.dumps(json.dumps({"prog": p})) for p in FIXED_PROGRAMS]
    chk.replayed += len(raws)
    _tick(chk, "model checked, programs exported")
    # random programs first: forking workers from a parent that already holds the big table of transitions is slow
    rng = random.Random(chk.seed + 61)
    seeds = [rng.randrange(1 << 30) for _ in range(6000 if quick else 30000)]
    sink, strays = collect(chk, core.parallel_iter(_exec_random, seeds, {"length": 12}, chunk=max(100, min(500, len(seeds) // 64))))
    _tick(chk, "random programs executed")
    # programs with a common prefix next to each other and large chunks: a worker then sees most repetitions of a
    # transition itself and returns it once
    raws.sort()
    s2, st2 = collect(chk, core.parallel_iter(_exec, raws, {}, chunk=max(400, min(6000, len(raws) // 64))))
    merge_sink(sink, s2)
    del s2
    strays += st2
    for s in strays[:50]:
        chk.add(core.Violation("stray-exception", {"m": "legacy-program", "prog": s["prog"]}, s["error"]))
    _tick(chk, "programs executed")
    judge(chk, pid, classify, list(sink.values()), len(raws), len(seeds))
    _tick(chk, "judged")


def _tick(chk, what):
    import time
    chk.notes.setdefault("phases_s", []).append([what, round(time.time() - chk.t0, 1)])


def judge(chk, pid, classify, alllines, nprogs=0, nrandom=0, name=""):
    """the verdicts of one property over a set of observed transitions"""
    mine = [ln for ln in alllines if (ln["outcome"] == "ok") == (pid == "C18")]
    # code -> spec, the machine: every transition of this kind (whatever the history), exact next state
    mlines = [ln for ln in mine if ln["op"]["op"] in MACHINE_OPS]
    mach = machine(chk, mlines, "machine" + name)
    mverdict = {mlines[i - 1]["hsh"]: v for i, v in mach.items()}
    nonconform = [mlines[i - 1] for i, v in sorted(mach.items()) if not v["conform"]]
    # code -> spec, the property: transitions from states reached by successful operations
    lines = [ln for ln in mine if ln["clean"]]
    if pid == "C19":
        # ... that are consistent: with nested id twins (the recorded C18 finding) the state before the call is already
        # broken, and a rollback that re-links the children "changes" it (LegacyMC.tla: last.pre)
        n0 = len(lines)
        lines = [ln for ln in lines if not twin_nested(ln["pre"])]
        chk.notes["rejected_transitions_from_twin_nested_states_not_judged"] = n0 - len(lines)
    chk.bounds.update({"programs_from_TLC": nprogs, "random_programs": nrandom, "distinct_transitions_judged": len(lines),
                       "distinct_transitions_checked_against_the_machine": len(mlines)})
    rej = monitor(chk, lines, "monitor" + name)
    chk.traces_accepted += len(lines) - len(rej) + len(mlines) - len(nonconform)
    chk.evaluations += len(lines) + len(mlines)
    for ln in lines:
        if ln["witness"][1] >= 2:
            chk.nontrivial.add(ln["hsh"])
    if lines:
        chk.sample({"witness_program": lines[len(lines) // 2]["witness"].prog(), "outcome": lines[len(lines) // 2]["outcome"]})
    consequences = 0
    bad = {lines[i - 1]["hsh"] for i in rej}
    for i, (outcome, clauses) in sorted(rej.items()):
        ln = lines[i - 1]
        wit = first_sound_history(ln, bad) if pid == "C18" else ln["witness"]
        wit = wit.prog() if wit is not None else None
        if wit is None:
            consequences += 1       # every history seen had broken the invariants before this step: the first break is reported
            continue
        mv = mverdict.get(ln["hsh"], {"conform": True, "partial": False}) if ln["op"]["op"] in MACHINE_OPS else None
        for cl in sorted(clauses):
            v = core.Violation(f"{ln['op']['op']}->{outcome}:{cl}", {"m": "legacy-program", "prog": wit},
                               f"program {json.dumps(wit)[:400]}: after {ln['op']['op']} ({outcome}) clause {cl} fails")
            v.finding = classify(ln, outcome, cl, mv)
            chk.add(v)
    chk.notes["transitions_after_an_earlier_break_not_reported_again"] = consequences
    # binding canaries: corrupted observations must be rejected by both trace specifications
    if not name:
        core.canary(chk, [ln for ln in mlines if ln["hsh"] not in mverdict], lambda c, ls, name: machine(c, ls, name),
                    corrupt=corrupt_machine_line, what="Trace_LegacyMachine")
        core.canary(chk, lines, lambda c, ls, name: monitor(c, ls, name), corrupt=lambda ln: corrupt_monitor_line(ln, pid),
                    what="Trace_Legacy", skip=set(rej))
    # transitions on which the library and Legacy.tla part ways without the property's clauses failing on what was
    # observed are not a verdict on the property: they are counted and shown, the exit code is not affected
    judged_bad = {lines[i - 1]["hsh"] for i in rej}
    div = [ln for ln in nonconform if ln["hsh"] not in judged_bad]
    chk.notes["model_divergences"] = len(div)
    if div:
        ln = div[0]
        print(f"NOTE property={pid} {len(div)} observed transitions differ from Legacy.tla without breaking a clause of the "
              f"property; first: {json.dumps(ln['witness'].prog())[:300]} diff {json.dumps(mverdict[ln['hsh']]['diff'])[:300]}")


def corrupt_machine_line(ln):
    """the observed post-state with one stored index changed"""
    out = json.loads(json.dumps({k: v for k, v in ln.items() if k not in STRIP}))
    for n in sorted(out["post"]):
        out["post"][n]["pi"] += 1
        return out
    return None


def corrupt_monitor_line(ln, pid):
    out = json.loads(json.dumps({k: v for k, v in ln.items() if k not in STRIP}))
    if pid == "C19":
        for n in sorted(out["pre"]):
            if n in out["post"]:
                out["post"][n]["det"] = not out["post"][n]["det"]
                return out
        return None
    for n in sorted(out["post"]):
        r = out["post"][n]
        if not r["det"]:
            r["cidok"] = False
            return out
    return None


def twin_nested(S) -> bool:
    """some node shares its id with a node below it"""
    for n, r in S.items():
        below: set = set()
        _subtree(S, n, below)
        below.discard(n)
        if any(S[m]["id"] == r["id"] for m in below):
            return True
    return False


def first_sound_history(ln, bad):
    """C18 is an invariant of histories: a transition is reported for a history in which no earlier transition had
    already broken it (that one is reported).  -> witness program, or None when every recorded history was broken"""
    for a in ln["alts"]:
        if not (set(a[0]) & bad):
            return a[1]
    return None


def replay(chk, data, pid, classify):
    core.use_repo()
    W = world()
    sink, strays = {}, []
    run_program(W, data["case"]["prog"], sink, strays)
    for s in strays:
        chk.add(core.Violation("stray-exception", data["case"], s["error"]))
    sub = core.Check.__new__(core.Check)
    sub.__dict__.update(chk.__dict__)
    sub.violations = []
    judge(sub, pid, classify, list(sink.values()), name="-replay")
    for v in sub.violations:
        if v.finding is None:
            chk.add(core.Violation(v.clause, data["case"], "still violated"))


# ---------------------------------------------------------------------------------------------
# known-finding predicates (see known_findings.json / DESIGN 14.3, 14.7).  The C19 findings are defined by the machine
# (c19.classify_line); only the shape of id-twin-nested is a predicate over the observed state.


def _subtree(S, n, acc):
    if n in acc or n not in S:
        return
    acc.add(n)
    for v in S[n]["k"].values():
        for x in (v if isinstance(v, list) else [v]):
            if x != "none":
                _subtree(S, x, acc)


def finding_id_twin_nested(ln, outcome, clause):
    """C18: a node and one of its (attached) ancestors share an id -- twins made by duplicating a detached node,
    by replace() keeping the id or by replace_with() handing an id over -- so registering the ancestor evicts
    the descendant (only sibling ids are checked for duplicates)."""
    S = ln["post"]
    if clause in ("parent-back-link", "upward-queries"):
        # explained iff every node whose recorded parent does not hold it is held by a node with the same id as
        # that recorded parent (the id twin that lost / won the registry entry)
        holders = {}
        for n, r in S.items():
            for f, v in r["k"].items():
                for j, c in enumerate(v if isinstance(v, list) else [v]):
                    if c != "none":
                        holders.setdefault(c, []).append((n, f, j if isinstance(v, list) else -1))
        explained = 0
        for n, r in S.items():
            if r["det"] or r["par"] == "none":
                continue
            pr = S.get(r["par"])
            if pr is None:
                return None
            if (r["par"], r["pf"], r["pi"]) in holders.get(n, []):
                continue
            below: set = set()
            _subtree(S, r["par"], below)
            if any(S[q]["idc"] == pr["idc"] and q in below for q, _, _ in holders.get(n, [])):
                explained += 1          # the real holder is the recorded parent's id twin nested below it
                continue
            if clause == "parent-back-link":
                return None
        twins = any(S[a]["idc"] == S[b]["idc"] for a in S for b in S if a != b)
        return "id-twin-nested" if (explained or clause == "upward-queries") and twins else None
    if clause != "children-attached":
        return None
    bad_pairs = 0
    for n, r in S.items():
        if r["det"]:
            continue
        for v in r["k"].values():
            for c in (v if isinstance(v, list) else [v]):
                if c == "none" or c not in S:
                    continue
                cr = S[c]
                ok = (not cr["det"]) and cr["par"] == n
                if ok:
                    continue
                # explained iff the child is detached and its id equals the id of n or of an attached ancestor of n
                ids = {r["idc"]}
                a = r["par"]
                guard = 0
                while a != "none" and a in S and guard < 50:
                    ids.add(S[a]["idc"])
                    a = S[a]["par"]
                    guard += 1
                if cr["det"] and cr["idc"] in ids:
                    bad_pairs += 1
                    continue
                # ... or the child is attached but linked to another node carrying the same id as n (the twin that won)
                if (not cr["det"]) and cr["par"] in S and S[cr["par"]]["idc"] == r["idc"]:
                    bad_pairs += 1
                    continue
                return None
    return "id-twin-nested" if bad_pairs else None
