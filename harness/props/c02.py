"""C02 == is content equality plus origin equality at every position."""
from . import content

PID = "C02"


def run(chk):
    chk.rule = ("Gen: every heap of <= N objects per class profile with two origin atoms (TLC, exhaustive); all pairs "
                "and every single-position origin flip / property change / child drop of the newest tree with the "
                "expected Eq from Heap.tla; ==, != in both orders, hash stability, non-node operands, transitivity "
                "over all triples of each heap. Non-trivial: content-equal pairs / variations. Trace: random forests.")
    content.run(chk, PID)


def replay(chk, data):
    content.replay(chk, data, PID)
