"""Shared by C01 (content_id / is_equal) and C02 (==): generation, replay, recording."""
from __future__ import annotations

import json
import os
import random
import subprocess
import sys

from .. import core, inst, tlc, zoo
from ..gen import random_heap, _psize
from ..heap import Slots, World, norm_heap, slot_order

PROFILES = {
    # name: (classes, prop table, default atoms, origins, objs quick, objs thorough, MaxTuple)
    # (thorough may also be a list of (objs, MaxTuple) runs: 5 objects with pairs is ~315k heaps whose
    #  invariants TLC does not finish in 20 min, so the deep run and the wide run are separate)
    "struct": (["Leaf", "Unary", "Many", "Opt"], {("Leaf", "a"): {0, 1}}, {0}, {0}, 4, [(5, 1), (4, 3)], 2),
    "props": (["Leaf", "SubLeaf", "Val", "Two", "Unary"],
              {("Leaf", "a"): {0, 1}, ("Leaf", "b"): {0, 1}, ("SubLeaf", "c"): {0, 1}, ("SubLeaf", "note"): {0, 1},
               ("Val", "v"): {0, 1, 2}, ("Val", "w"): {0, 1}, ("Two", "x"): {0, 1}, ("Two", "y"): {0, 1}},
              {0}, {0}, 2, 3, 1),
    "origins": (["Leaf", "Unary", "Bin"], {}, {0}, {0, 1}, 4, 5, 1),
    "classes": (["Leaf", "SubLeaf", "FLeaf", "Unary", "FUnary", "Pair", "SubMany"], {}, {0}, {0}, 3, 3, 1),
    # a child-less base class and a subclass that adds a child field, origins varied below it
    "inherit-kid": (["Leaf", "KLeaf", "Unary"], {}, {0}, {0, 1}, 3, 4, 1),
}


def gen_cases(chk: core.Check, profile: str, nobj: int, mt: int | None = None):
    classes, ptab, dflt, orgs, _, _, mt0 = PROFILES[profile]
    mt = mt0 if mt is None else mt
    mod, cfg = inst.instance(
        "I_Content", "Gen_Content",
        dict(MaxObjs=nobj, MaxTuple=mt, GenClasses=set(classes), Origins=set(orgs), PropAtoms="@op:PA"),
        ops=[inst.prop_atoms_def("PA", ptab, set(dflt))],
        invariants=["EmitInv", "CEqEquiv", "EqEquiv", "OriginBlind", "NonCompareBlind", "CompareSensitive"])
    (chk.wd / "I_Content.tla").write_text(mod)
    r = tlc.run(chk.wd, "I_Content", cfg, workers=core.NPROC, timeout=3000)
    tlc.require_clean(r, f"Gen_Content/{profile}")
    chk.note_tlc(f"Gen_Content/{profile}/objs={nobj}/tuple={mt}", r, "mc+gen")
    if r.violated:
        chk.tlc_violation(f"Gen_Content-{profile}", r)
    return r.json_lines


def observe(a, b) -> dict:
    ha = hash(a)
    return {
        "cid_eq": a.content_id == b.content_id,
        "iseq_ab": a.is_equal(b), "iseq_ba": b.is_equal(a),
        "eq_ab": a == b, "eq_ba": b == a, "ne_ab": a != b,
        "hash_stable": hash(a) == ha and hash(a) == hash(a),
    }


def judge(pid: str, obs: dict, ceq: bool, eq: bool) -> list[str]:
    bad = []
    if pid == "C01":
        if obs["cid_eq"] != ceq:
            bad.append("content_id-equality")
        if obs["iseq_ab"] != ceq or obs["iseq_ba"] != ceq:
            bad.append("is_equal")
    else:
        if obs["eq_ab"] != eq or obs["eq_ba"] != eq:
            bad.append("==")
        if obs["ne_ab"] != (not eq):
            bad.append("!=")
        if not obs["hash_stable"]:
            bad.append("hash")
    return bad


def check_case(W: World, case: dict, pid: str) -> list:
    out = []
    h = norm_heap(case["h"])
    objs = W.build(h)
    # a second, independently built copy with the other concrete variant of every atom
    objs2 = W.build(h, variant=1)
    cids = {s: o.content_id for s, o in objs.items()}

    def bad(clause, detail, sub):
        out.append((clause, detail, {"m": "content", "h": h, "root": case["root"], "poolset": W.poolset, **sub}))

    for p in case.get("pairs", []):
        for (x, y, tag) in ((objs[p["a"]], objs[p["b"]], "same-build"), (objs[p["a"]], objs2[p["b"]], "other-variant")):
            obs = observe(x, y)
            for cl in judge(pid, obs, p["ceq"], p["eq"]):
                bad(cl, f"{tag}: a={p['a']} b={p['b']} expected ceq={p['ceq']} eq={p['eq']} observed {obs}",
                    {"pairs": [p]})
        if pid == "C02":
            # other operand kinds
            a = objs[p["a"]]
            for other in (None, 1, "x", object()):
                if (a == other) is not False or (a != other) is not True:
                    bad("==nonnode", f"a == {other!r} is not False", {"pairs": [p]})
    for v in case.get("vars", []):
        h2 = norm_heap(v["h2"])
        o2 = W.build(h2, variant=1)
        obs = observe(objs[case["root"]], o2[case["root"]])
        for cl in judge(pid, obs, v["ceq"], v["eq"]):
            bad(cl + "/" + v["kind"], f"variation {v['kind']} at {v['s']}.{v['f']}: expected ceq={v['ceq']} eq={v['eq']} observed {obs}",
                {"vars": [v]})
    if pid == "C02":
        ss = slot_order(h)
        for a in ss:
            for b in ss:
                if not (objs[a] == objs[b]):
                    continue
                for c in ss:
                    if objs[b] == objs[c] and not (objs[a] == objs[c]):
                        bad("transitivity", f"{a}=={b}=={c} but not {a}=={c}", {})
    if pid == "C01":
        for s, o in objs.items():
            if o.content_id != cids[s]:
                bad("content_id-changed", f"content_id of {s} changed", {})
    return out


def _replay(chunk, arg):
    core.use_repo()
    W = World(zoo.BASIC, arg["poolset"])
    viol, n, nontriv = [], 0, set()
    for case in chunk:
        viol.extend(core.safe(check_case, case, W, case, arg["pid"]))
        n += 2 * len(case.get("pairs", [])) + len(case.get("vars", []))
        for p in case.get("pairs", []):
            if p["ceq"] and p["a"] != p["b"]:
                nontriv.add(hash(json.dumps([case["h"], p["a"], p["b"]], sort_keys=True)))
        for v in case.get("vars", []):
            if v["ceq"] != v["eq"] or not v["ceq"]:
                nontriv.add(hash(json.dumps([case["h"], v["kind"], v["s"], v["f"], v["v"]], sort_keys=True)))
    return viol, n, nontriv


# ---------------------------------------------------------------------------------------------
# cross-process: content ids computed in two other processes (other hash seed, reordered zoo)


def cids_in_process(cases: list, hashseed: str, reorder: bool, poolset: str, wd) -> list:
    inp = wd / f"xp_in_{hashseed}_{int(reorder)}.json"
    inp.write_text(json.dumps([{"h": norm_heap(c["h"])} for c in cases]))
    code = (
        "import sys, json; sys.path.insert(0, %r); sys.path.insert(0, %r)\n"
        "from harness import zoo\nfrom harness.heap import World\n"
        "z = zoo.reordered(zoo.BASIC) if %r else zoo.BASIC\n"
        "W = World(z, %r)\n"
        "out = []\n"
        "for c in json.load(open(%r)):\n"
        "    o = W.build(c['h'], variant=1)\n"
        "    out.append({s: x.content_id for s, x in o.items()})\n"
        "print(json.dumps(out))\n"
    ) % (str(core.REPO / "src"), str(core.VERIF), reorder, poolset, str(inp))
    env = dict(os.environ, PYTHONHASHSEED=hashseed)
    p = subprocess.run([sys.executable, "-c", code], capture_output=True, text=True, env=env, timeout=1200)
    if p.returncode != 0:
        raise tlc.MachineryError("cross-process worker failed: " + p.stderr[-2000:])
    return json.loads(p.stdout)


def cross_process(chk: core.Check, cases: list, poolset: str):
    """C01: same abstract trees built in another process (other string-hash seed, fields declared in
    another order) must get content ids that are equal exactly for content-equal nodes."""
    core.use_repo()
    W = World(zoo.BASIC, poolset)
    others = [cids_in_process(cases, "1", True, poolset, chk.wd), cids_in_process(cases, "7", False, poolset, chk.wd)]
    n = 0
    for i, case in enumerate(cases):
        h = norm_heap(case["h"])
        objs = W.build(h)
        for oth, tag in zip(others, ("hashseed=1,reordered-declarations", "hashseed=7")):
            for p in case["pairs"]:
                n += 1
                same = objs[p["a"]].content_id == oth[i][p["b"]]
                if same != p["ceq"]:
                    chk.add(core.Violation("content_id-cross-process",
                                           {"m": "content-xp", "h": h, "root": case["root"], "pairs": [p], "poolset": poolset, "other": tag},
                                           f"{tag}: content_id({p['a']}) here vs content_id({p['b']}) there: equal={same}, expected {p['ceq']}"))
    chk.evaluations += n
    chk.notes["cross_process_pairs"] = chk.notes.get("cross_process_pairs", 0) + n


# ---------------------------------------------------------------------------------------------
# code -> spec


def mutate_copy(rng: random.Random, h: dict, root: str, zi) -> tuple[dict, str]:
    """Append a renamed copy of root's subtree with 0..2 random edits; returns (heap, copy root)."""
    h = json.loads(json.dumps(h))
    n = len(h)
    ren: dict[str, str] = {}
    order = []

    def visit(s):
        if s in ren:
            return
        for f in zi.child_fields(h[s]["c"]):
            v = h[s]["k"][f["n"]]
            for t in (v if isinstance(v, list) else [v]):
                if t != "none":
                    visit(t)
        ren[s] = f"s{n + len(ren) + 1}"
        order.append(s)

    visit(root)
    for s in order:
        r = json.loads(json.dumps(h[s]))
        for f in zi.child_fields(r["c"]):
            v = r["k"][f["n"]]
            r["k"][f["n"]] = [ren[t] for t in v] if isinstance(v, list) else (ren[v] if v != "none" else "none")
        h[ren[s]] = r
    for _ in range(rng.choice([0, 0, 1, 1, 2])):
        s = ren[rng.choice(order)]
        r = h[s]
        kind = rng.choice(["org", "prop", "prop", "drop"])
        if kind == "org":
            r["o"] = (r["o"] + 1) % 3
        elif kind == "prop":
            fs = [f for f in zi.prop_fields(r["c"]) if f["init"]]
            if fs:
                f = rng.choice(fs)
                r["p"][f["n"]] = (r["p"][f["n"]] + 1) % min(3, _psize(f))
        else:
            fs = [f for f in zi.child_fields(r["c"]) if f["kind"] in ("opt", "tuple")]
            if fs:
                f = rng.choice(fs)
                if f["kind"] == "opt":
                    r["k"][f["n"]] = "none"
                elif r["k"][f["n"]]:
                    r["k"][f["n"]] = r["k"][f["n"]][1:] if rng.random() < 0.5 else list(reversed(r["k"][f["n"]]))
    return h, ren[root]


def _record(chunk, arg):
    core.use_repo()
    W = World(zoo.BASIC, "plain")
    zi = W.zi
    lines = []
    for seed in chunk:
        rng = random.Random(seed)
        nobj = rng.randrange(4, arg["maxobj"])
        h = random_heap(rng, zi, nobj, list(zi.order), max_tuple=3, share=0.15, norigins=3)
        root = f"s{nobj}"
        h, copy = mutate_copy(rng, h, root, zi)
        objs = W.build(h)
        ss = slot_order(h)
        pairs = [(root, copy), (copy, root), (root, root)]
        for _ in range(arg["pairs"]):
            pairs.append((rng.choice(ss), rng.choice(ss)))
        # twin leaves are the most likely equal pairs
        for a, b in pairs:
            obs = observe(objs[a], objs[b])
            lines.append({"h": h, "a": a, "b": b, **obs})
    return lines


def trace_validate(chk: core.Check, lines: list, name: str = "trace"):
    """-> {line number: set of clauses rejected}"""
    f = chk.wd / f"{name}.ndjson"
    with open(f, "w") as fh:
        for ln in lines:
            fh.write(json.dumps(ln) + "\n")
    cfg = "INIT Init\nNEXT Next\nPOSTCONDITION Done\nCHECK_DEADLOCK FALSE\n"
    r = tlc.run(chk.wd, "Trace_Content", cfg, workers=1, timeout=3000, env={"TRACE_FILE": str(f)})
    chk.note_tlc(f"Trace_Content/{name}", r, "trace-validation")
    return {i: {x for x in ("C01", "C02") if x in json.dumps(info)} for i, info in tlc.rejected(r, len(lines), "Trace_Content").items()}


def run(chk: core.Check, pid: str):
    quick = chk.tier == "quick"
    allcases = []
    profs = ["struct", "props", "classes", "inherit-kid"] if pid == "C01" else ["origins", "struct", "classes", "inherit-kid"]
    for prof in profs:
        nq, nt = PROFILES[prof][4], PROFILES[prof][5]
        runs = [(nq, None)] if quick else (nt if isinstance(nt, list) else [(nt, None)])
        for nobj, mt in runs:
            allcases.extend(gen_cases(chk, prof, nobj, mt))
        chk.bounds[prof] = {"runs (MaxObjs, MaxTuple)": [[n, PROFILES[prof][6] if m is None else m] for n, m in runs],
                            "classes": PROFILES[prof][0]}
    c = allcases[len(allcases) // 2]
    chk.sample({"heap": c["h"], "root": c["root"], "pairs": c["pairs"][:3], "n_variations": len(c["vars"])})
    poolsets = ["plain", "adversarial", "sets", "sets2"] if quick else ["plain", "adversarial", "adversarial2", "adversarial3", "adversarial4", "sets", "sets2"]
    if pid == "C02":
        poolsets = ["plain"] if quick else ["plain", "adversarial"]
    for ps in poolsets:
        for viol, n, nontriv in core.parallel(_replay, allcases, {"poolset": ps, "pid": pid}):
            chk.evaluations += n
            chk.nontrivial |= nontriv
            for clause, detail, case in viol:
                chk.add(core.Violation(clause, case, detail))
        chk.replayed += len(allcases)
    if pid == "C02":
        # == must not fall for property values that Python itself calls equal across types (1 / True / 1.0 ...): the
        # property-rich profile with the look-alike pools
        pc = gen_cases(chk, "props", PROFILES["props"][4] if quick else PROFILES["props"][5])
        for ps in (["adversarial"] if quick else ["adversarial", "adversarial2", "adversarial4"]):
            for viol, n, nontriv in core.parallel(_replay, pc, {"poolset": ps, "pid": pid}):
                chk.evaluations += n
                chk.nontrivial |= nontriv
                for clause, detail, case in viol:
                    chk.add(core.Violation(clause, case, detail))
            chk.replayed += len(pc)
    chk.exhaustive = True
    if pid == "C01":
        props_cases = [c for c in allcases if any(r["c"] in ("Val", "Two", "SubLeaf") for r in norm_heap(c["h"]).values())]
        sub = props_cases[: 400 if quick else 4000] + allcases[: 300 if quick else 3000]
        for ps in (["sets", "sets2", "adversarial"] if quick else ["sets", "sets2", "adversarial", "adversarial2", "plain"]):
            cross_process(chk, sub, ps)
    # code -> spec
    rng = random.Random(chk.seed)
    seeds = [rng.randrange(1 << 30) for _ in range(80 if quick else 800)]
    lines = []
    for ls in core.parallel(_record, seeds, {"maxobj": 20 if quick else 40, "pairs": 6}):
        lines.extend(ls)
    rej = trace_validate(chk, lines)
    core.canary(chk, lines, trace_validate, what="Trace_Content", skip=set(rej))
    mine = {i for i, cl in rej.items() if pid in cl}
    chk.traces_accepted += len(lines) - len(mine)
    chk.evaluations += len(lines)
    for i in sorted(mine)[:20]:
        chk.add(core.Violation("trace-" + pid, {"m": "content-trace", **lines[i - 1]},
                               f"recorded answers {lines[i-1]['a']},{lines[i-1]['b']} contradict Heap.tla ({pid})"))
    chk.sample({"recorded_line": {k: v for k, v in lines[0].items() if k != "h"}})


def replay(chk: core.Check, data: dict, pid: str):
    core.use_repo()
    case = data["case"]
    if case["m"] == "content-trace":
        W = World(zoo.BASIC, "plain")
        objs = W.build(case["h"])
        ln = {"h": case["h"], "a": case["a"], "b": case["b"], **observe(objs[case["a"]], objs[case["b"]])}
        rej = trace_validate(chk, [ln], "replay")
        if any(pid in cl for cl in rej.values()):
            chk.add(core.Violation(data["clause"], case, "still rejected by Trace_Content"))
        return
    if case["m"] == "content-xp":
        chk2 = chk
        n0 = len(chk.violations)
        cross_process(chk2, [case], case["poolset"])
        return
    W = World(zoo.BASIC, case.get("poolset", "plain"))
    for clause, detail, c in check_case(W, case, pid):
        chk.add(core.Violation(clause, c, detail))
