"""C04 Serialization round-trips trees exactly in dict, JSON, MessagePack and YAML."""
from . import registry

PID = "C04"


def run(chk):
    chk.rule = ("MC: RoundTrip on the Registry machine with Ser / Deser / DropAll (payload = tree by value with ids; "
                "Deser = fold of lookup-or-create-and-force-id), every interleaving with drop / detach_self / twin "
                "construction between serialization and deserialization. Gen: every transition ending in a "
                "deserialization replayed in all four formats: per position the registered original or a new "
                "registered node with the serialized id, shared objects shared again. A behaviour is non-trivial "
                "with >= 3 steps. Trace: random histories with as_dict / to_json / to_msgpck / to_yaml and the matching "
                "readers between constructions, drops, detaches and replaces, over eleven classes incl. one with "
                "every representable property kind (nasty Unicode, 64-bit ints, floats incl. -0.0, bools, None, enum, "
                "Path, Literal, tuples) and ten origins of every kind, validated by Trace_Registry.tla. Fresh process: payloads (4 formats + JSON with index-based "
                "sources and separately shipped sources) of random trees with collision-suffixed ids are read in a second "
                "interpreter that never saw the originals; its alpha is validated against the payload by the same trace spec.")
    quick = chk.tier == "quick"
    registry.run_machine(chk, PID, ["ser-3q", "ser-many-3q", "ser-slots-3"], ["ser-3", "ser-3q", "ser-many-3q", "ser-many-4", "ser-slots-3"], None)
    registry.run_traces(chk, PID, 100 if quick else 1500, 40 if quick else 60, ser=True)
    registry.fresh_process(chk, 60 if quick else 1500)


def replay(chk, data):
    registry.replay(chk, data, PID)
