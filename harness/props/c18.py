"""C18 Legacy parent-aware trees stay structurally consistent through any history."""
from . import legacy

PID = "C18"
ZOO = "legacy"


def classify_line(ln, outcome, clause, mv=None):
    """known iff the state is exactly what Legacy.tla (the documented algorithm) predicts (mv: the machine's verdict
    on this transition; None for operations the machine does not model) and it has the shape of id-twin-nested"""
    if mv is not None and not mv["conform"]:
        return None
    return legacy.finding_id_twin_nested(ln, outcome, clause)


def run(chk):
    chk.rule = ("Gen: every program of <= 3 (quick) / 4 (thorough) public legacy operations over <= 3 node handles (TLC, "
                "LegacyScripts.tla, exhaustive) plus random 12-step programs over six classes, executed against the real "
                "classes; every distinct observed transition (pre-state, operation, outcome, post-state) reached through "
                "successful operations that never put one node at two positions is judged by LegacyMonitor.tla: children "
                "attached with the right parent / field / index, parent back link, one attached node per id, content_id equal "
                "to an independently built equal tree, ancestors / depth / calculated xpath agree with the structure. "
                "Non-trivial: transitions whose witness program has at least two operations.")
    legacy.run(chk, PID, classify_line)


def replay(chk, data):
    legacy.replay(chk, data, PID, classify_line)
