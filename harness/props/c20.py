"""C20 Legacy traversal and legacy XPath follow the same semantics as their successors."""
from __future__ import annotations

import json
import random
import re
import warnings

from .. import core, inst, tlc, zoo
from ..gen import random_heap, wide_heap
from ..heap import Slots, World, norm_fn, norm_heap, slot_order
from ..xpathtext import render
from .treeq import derived_steps, random_steps

PID = "C20"
ZOO = "legacy"
GATHER = {frozenset({"LLeaf"}), frozenset({"ASTNode"}), frozenset({"LMany", "LUnary"})}
CLASSES = ["LLeaf", "LSub", "LUnary", "LMany", "LList", "LOpt"]


def world():
    warnings.simplefilter("ignore")
    return World(zoo.LEGACY, "plain", legacy=True)


def gen_cases(chk, nobj, which, classes=None):
    mod, cfg = inst.instance(
        "I_LegacyTrav", "Gen_LegacyTrav",
        dict(MaxObjs=nobj, MaxTuple=2, GenClasses=set(classes or CLASSES), Origins={0}, PropAtoms="@op:PA", GatherClasses=set(GATHER),
             XFields={"child", "items", "elems", "head"}, XClasses={"LLeaf", "LUnary", "ASTNode"}, XIndices={0, 1}, NPath2=6, NPath3=3),
        ops=[inst.prop_atoms_def("PA", {}, {0})],
        invariants=[{"trav": "EmitTrav", "xpath": "EmitXPath", "edits": "EmitEdits"}[which], "ShiftLaw", "XAgree"])
    (chk.wd / "I_LegacyTrav.tla").write_text(mod)
    r = tlc.run(chk.wd, "I_LegacyTrav", cfg, workers=core.NPROC, timeout=3000, seed=chk.seed)
    tlc.require_clean(r, "Gen_LegacyTrav")
    chk.note_tlc(f"Gen_LegacyTrav/{which}/objs={nobj}", r, "mc+gen")
    if r.violated:
        chk.tlc_violation("Gen_LegacyTrav-" + which, r)
    return r.json_raw


def reach(h, root, zi):
    out = []

    def go(s):
        for f in zi.child_fields(h[s]["c"]):
            v = h[s]["k"][f["n"]]
            for t in (v if isinstance(v, list) else [v]):
                if t != "none":
                    go(t)
        out.append(s)
    go(root)
    return out


def build_tree(W, h, root):
    """build only the tree under root (children first); legacy nodes get exactly one parent"""
    objs = {}
    for s in reach(h, root, W.zi):
        objs[s] = W.make(h[s], objs)
    return objs


def trav(node, mode, prune, flt, skip, S):
    fp = (lambda n: S.of(n) in prune)
    ff = (lambda n: flt is None or S.of(n) in flt)
    if mode == "bfs":
        return [S.of(n) for n in node.bfs(prune=fp, filter=ff, skip_self=skip)]
    return [S.of(n) for n in node.dfs(prune=fp, filter=ff, bottom_up=(mode == "post"), skip_self=skip)]


def check_case(W, case) -> list:
    from pyoak.legacy.match.xpath import ASTXpath
    out = []
    h = norm_heap(case["h"])
    objs = build_tree(W, h, case["root"])
    S = Slots(objs)
    root = objs[case["root"]]

    def bad(clause, detail, sub):
        out.append((clause, detail, {"m": case["m"], "h": h, "root": case["root"], **sub}))
    if case["m"] == "ltrav":
        for run in case["runs"]:
            P, F = set(run["prune"]), set(run["flt"])
            for mode in ("pre", "post", "bfs"):
                got = trav(root, mode, P, F, run["skip"], S)
                if got != list(run[mode]):
                    bad(f"legacy-{mode}", f"prune={sorted(P)} filter={sorted(F)} skip_self={run['skip']}: {got} expected {run[mode]}", {"runs": [run], "gather": []})
        for g in case["gather"]:
            cls = tuple(W.cls(c) for c in g["classes"])
            P = set(g["prune"])
            got = [S.of(n) for n in root.gather(cls if len(cls) > 1 else cls[0], exact_type=g["exact"], prune=lambda n: S.of(n) in P, skip_self=g["skip"])]
            if got != list(g["res"]):
                bad("legacy-gather", f"{g['classes']} exact={g['exact']} prune={sorted(P)} skip_self={g['skip']}: {got} expected {g['res']}", {"runs": [], "gather": [g]})
        return out
    # xpath
    if not root.calculate_xpath():
        bad("calculate_xpath", "returned False on an attached root", {"paths": [], "xpaths": {}})
    xp = norm_fn(case["xpaths"])
    for n, path in xp.items():
        want = "".join(f"/@{'root' if k == 0 else f}[{max(i, 0)}]{c}" for k, (f, i, c) in enumerate(path))
        if objs[n].xpath != want:
            bad("calculate_xpath", f"{n}: {objs[n].xpath!r} expected {want!r}", {"paths": [], "xpaths": {n: path}})
    for j, pc in enumerate(case["paths"]):
        text = render(pc["p"], j % 3, "", "AwareASTNode")
        try:
            x = ASTXpath(text)
        except Exception as ex:
            bad("legacy-xpath-compile", f"{text!r}: {type(ex).__name__}: {ex}", {"paths": [pc], "xpaths": {}})
            continue
        exp = set(pc["found"])
        for n, o in objs.items():
            m = x.match(o)
            if m != (n in exp):
                bad("legacy-xpath-match", f"{text!r}.match({n}) = {m}, expected {n in exp}", {"paths": [pc], "xpaths": {}, "text": text})
    # calculate_xpath again after an in-place edit (paths were calculated once above: anything cached must be redone)
    for ed in case.get("edits", []):
        objs2 = build_tree(W, h, case["root"])
        root2 = objs2[case["root"]]
        root2.calculate_xpath()
        objs2[ed["n"]].replace_with(None)
        root2.calculate_xpath()
        for n, path in norm_fn(ed["xpaths"]).items():
            want = "".join(f"/@{'root' if k == 0 else f}[{max(i, 0)}]{c}" for k, (f, i, c) in enumerate(path))
            if objs2[n].xpath != want:
                bad("calculate_xpath-after-edit", f"after {ed['n']}.replace_with(None): {n}: {objs2[n].xpath!r} expected {want!r}",
                    {"paths": [], "xpaths": {}, "edits": [ed]})
    return out


def _replay(chunk, arg):
    core.use_repo()
    W = world()
    viol, n, nontriv = [], 0, set()
    for raw in chunk:
        case = tlc.decode(raw)
        viol.extend(core.safe(check_case, case, W, case))
        if case["m"] == "ltrav":
            n += 3 * len(case["runs"]) + len(case["gather"])
            for r in case["runs"]:
                if r["prune"] and r["pre"] and len(r["flt"]) > len(r["pre"]):
                    nontriv.add(hash(json.dumps([case["h"], r["prune"], r["flt"], r["skip"]], sort_keys=True)))
        else:
            n += len(case["paths"])
            for pc in case["paths"]:
                if pc["found"]:
                    nontriv.add(hash(json.dumps([case["h"], pc["p"]], sort_keys=True)))
    return viol, n, nontriv


_seg = re.compile(r"/@(\w+)\[(\d+)\](\w+)")


def _record(chunk, arg):
    from pyoak.legacy.match.xpath import ASTXpath
    core.use_repo()
    W = world()
    zi = W.zi
    lines = []
    for seed in chunk:
        rng = random.Random(seed)
        wide = rng.random() < 0.4
        nobj = rng.randrange(4, arg["maxobj"])
        if wide:
            h = wide_heap(rng, "LLeaf", *rng.choice([("LMany", "items"), ("LList", "elems")]), "LUnary")
            nobj = len(h)
        else:
            h = random_heap(rng, zi, nobj, CLASSES, max_tuple=3, share=0.0)
        root = f"s{nobj}"
        nodes = reach(h, root, zi)
        if len(set(nodes)) != len(nodes):
            continue
        hh = {s: h[s] for s in nodes}
        try:
            objs = build_tree(W, hh, root)
        except Exception:
            continue
        S = Slots(objs)
        r = objs[root]
        base = {"h": hh, "root": root}
        for _ in range(6):
            P = set(rng.sample(nodes, min(len(nodes), rng.choice([0, 1, 2]))))
            fall = rng.random() < 0.3
            F = None if fall else set(rng.sample(nodes, rng.randrange(len(nodes) + 1)))
            mode = rng.choice(["pre", "post", "bfs"])
            skip = rng.random() < 0.5
            lines.append({**base, "op": "trav", "mode": mode, "prune": sorted(P), "flt": sorted(F) if F is not None else [], "fall": fall,
                          "skip": skip, "obs": trav(r, mode, P, F, skip, S)})
        r.calculate_xpath()
        for _ in range(6):
            n = rng.choice(nodes)
            o = objs[n]
            chain = [o] + list(o.ancestors())
            path = []
            for x in reversed(chain):
                path.append([x.parent_field.name if x.parent_field else "none", -1 if x.parent_index is None else x.parent_index, type(x).__name__])
            steps = derived_steps(rng, path) if rng.random() < 0.6 else random_steps(rng, zi, CLASSES, rng.choice([1, 2, 3]), wide)
            text = render(steps, rng.randrange(3), "", "AwareASTNode")
            m = rng.choice(nodes)
            lines.append({**base, "op": "xmatch", "p": steps, "text": text, "n": m, "obs": bool(ASTXpath(text).match(objs[m]))})
            # calculate_xpath, abstracted back to [field, index, class] (a single field is spelled [0])
            segs = _seg.findall(o.xpath or "")
            ap = []
            for k, (f, i, c) in enumerate(segs):
                if k == 0:
                    ap.append(["none", -1, c])
                else:
                    isseq = isinstance(getattr(chain[len(chain) - k], f, None), (list, tuple))
                    ap.append([f, int(i) if isseq else -1, c])
            lines.append({**base, "op": "xpath", "n": n, "obs": ap})
    return lines


def trace_validate(chk, lines, name="trace"):
    f = chk.wd / f"{name}.ndjson"
    with open(f, "w") as fh:
        for ln in lines:
            fh.write(json.dumps(ln) + "\n")
    cfg = "INIT Init\nNEXT Next\nPOSTCONDITION Done\nCHECK_DEADLOCK FALSE\n"
    r = tlc.run(chk.wd, "Trace_LegacyTrav", cfg, workers=1, timeout=3000, env={"TRACE_FILE": str(f)})
    chk.note_tlc(f"Trace_LegacyTrav/{name}", r, "trace-validation")
    return sorted(tlc.rejected(r, len(lines), "Trace_LegacyTrav"))


def run(chk: core.Check):
    quick = chk.tier == "quick"
    chk.rule = ("Gen: every attached legacy tree of <= N objects over six classes (tuple, list, optional, required children; "
                "TLC, exhaustive): dfs pre / post and bfs for every prune subset x filter subset of the nodes x skip_self, "
                "gather, expected from Heap.tla shifted by the start node; legacy ASTXpath.match for every node x all 1-step "
                "paths, sampled 2 / 3-step paths and paths derived from real positions (expected from TreeQ.tla, the C07 "
                "semantics), rendered in three spellings; calculate_xpath for every node. Non-trivial: runs with a non-empty "
                "prune set where the filter removes something; paths with a non-empty result. Trace: random attached trees "
                "with tuples / lists up to 13 and indices up to 12, validated by Trace_LegacyTrav.tla.")
    n = 3 if quick else 4
    raws = gen_cases(chk, n, "trav") + gen_cases(chk, n, "xpath")
    # in-place edits below an inner node need one object more (root, inner node, two elements)
    raws += gen_cases(chk, n + 1, "edits", ["LLeaf", "LUnary", "LMany", "LList"])
    chk.bounds = {"MaxObjs_traversal": n, "MaxObjs_xpath": n, "MaxObjs_edits": n + 1}
    c = tlc.decode(raws[len(raws) // 3])
    chk.sample({"m": c["m"], "heap": c["h"], "root": c["root"]})
    for viol, cnt, nontriv in core.parallel(_replay, raws, {}, chunk=20):
        chk.evaluations += cnt
        chk.nontrivial |= nontriv
        for clause, detail, case in viol:
            chk.add(core.Violation(clause, case, detail))
    chk.replayed += len(raws)
    chk.exhaustive = True
    rng = random.Random(chk.seed + 51)
    lines = []
    for ls in core.parallel(_record, [rng.randrange(1 << 30) for _ in range(80 if quick else 800)], {"maxobj": 25 if quick else 40}):
        lines.extend(ls)
    rej = trace_validate(chk, lines)
    core.canary(chk, lines, trace_validate, what="Trace_LegacyTrav", skip=set(rej))
    chk.traces_accepted += len(lines) - len(rej)
    chk.evaluations += len(lines)
    for i in rej[:25]:
        ln = lines[i - 1]
        chk.add(core.Violation("trace-" + ln["op"], {"m": "legacy-trace", **ln},
                               f"recorded legacy {ln['op']} {ln.get('text', '')}: {ln['obs']} contradicts the spec"))


def replay(chk, data):
    core.use_repo()
    W = world()
    case = data["case"]
    if case["m"] in ("ltrav", "lxpath"):
        for clause, detail, c in check_case(W, case):
            chk.add(core.Violation(clause, c, detail))
        return
    from pyoak.legacy.match.xpath import ASTXpath
    objs = build_tree(W, case["h"], case["root"])
    S = Slots(objs)
    ln = {k: v for k, v in case.items() if k != "m"}
    if ln["op"] == "trav":
        ln["obs"] = trav(objs[ln["root"]], ln["mode"], set(ln["prune"]), None if ln["fall"] else set(ln["flt"]), ln["skip"], S)
    elif ln["op"] == "xmatch":
        ln["obs"] = bool(ASTXpath(ln["text"]).match(objs[ln["n"]]))
    if trace_validate(chk, [ln], "replay"):
        chk.add(core.Violation(data["clause"], case, "still rejected by Trace_LegacyTrav"))
