"""C05 Traversals visit exactly the descendants, in order, with exact position info."""
from __future__ import annotations

import json
import random

from .. import core, inst, tlc, zoo
from ..heap import Slots, World, norm_heap
from ..gen import random_heap

PID = "C05"

PROFILES = {
    # name: (classes, prop table, MaxObjs quick, MaxObjs thorough, MaxTuple)
    "struct": (["Leaf", "Unary", "Many", "Opt"], {("Leaf", "a"): {0, 1}}, 3, 4, 2),
    "falsy": (["Leaf", "FLeaf", "FUnary", "Bin", "Pair"], {}, 3, 4, 2),
    "inherit": (["Leaf", "SubLeaf", "SubMany"], {}, 3, 3, 2),
    "inherit-kid": (["Leaf", "KLeaf", "Unary"], {}, 3, 4, 1),
}
GATHER = [frozenset({"Leaf"}), frozenset({"ASTNode"}), frozenset({"Many", "Unary"}),
          frozenset({"SubLeaf", "Bin"})]


def gen_cases(chk: core.Check, profile: str, nobj: int):
    classes, ptab, _, _, mt = PROFILES[profile]
    mod, cfg = inst.instance(
        "I_Traverse", "Gen_Traverse",
        dict(MaxObjs=nobj, MaxTuple=mt, GenClasses=set(classes), Origins={0},
             PropAtoms="@op:PA", GatherClasses=set(GATHER)),
        ops=[inst.prop_atoms_def("PA", ptab, {0})],
        invariants=["EmitInv", "OrdersAgree", "ExactlyDescendants"])
    (chk.wd / "I_Traverse.tla").write_text(mod)
    r = tlc.run(chk.wd, "I_Traverse", cfg, workers=core.NPROC, timeout=3000)
    tlc.require_clean(r, f"Gen_Traverse/{profile}")
    chk.note_tlc(f"Gen_Traverse/{profile}/objs={nobj}", r, "mc+gen")
    if r.violated:
        chk.tlc_violation(f"Gen_Traverse-{profile}", r)
    return r.json_lines


def E(e) -> tuple:
    return tuple(e)


def run_one(root, S: Slots, mode: str, prune: set, flt, use_default: bool = False):
    """-> (yielded edges, offered to filter, offered to prune, position-info errors)"""
    off_f, off_p = [], []

    def fprune(ni):
        e = S.edge(ni)
        off_p.append(e)
        return e in prune

    def ffilter(ni):
        e = S.edge(ni)
        off_f.append(e)
        return flt is None or e in flt

    if use_default:
        it = root.bfs() if mode == "bfs" else root.dfs(bottom_up=(mode == "post"))
    elif mode == "bfs":
        it = root.bfs(prune=fprune, filter=ffilter)
    else:
        it = root.dfs(prune=fprune, filter=ffilter, bottom_up=(mode == "post"))
    infos = list(it)
    errs = []
    for ni in infos:
        v = getattr(ni.parent, ni.field.name)
        if isinstance(v, tuple):
            good = ni.findex is not None and 0 <= ni.findex < len(v) and v[ni.findex] is ni.node
        else:
            good = ni.findex is None and v is ni.node
        if not good:
            errs.append(S.edge(ni))
    return [S.edge(x) for x in infos], off_f, off_p, errs


def check_case(W: World, case: dict) -> list:
    """Run one generated case against the real library; returns [(clause, detail, replay-case)]."""
    out = []
    h = norm_heap(case["h"])
    objs = W.build(h)
    S = Slots(objs)
    root = objs[case["root"]]
    allE = {E(e) for e in case["all"]}

    def bad(clause, detail, sub):
        out.append((clause, detail, {"m": "traverse", "h": h, "root": case["root"], "all": case["all"],
                                     "poolset": W.poolset, **sub}))

    if "children" in case:
        obs = [S.of(c) for c in root.children]
        if obs != list(case["children"]):
            bad("children", f"children={obs} expected={case['children']}", {"children": case["children"]})
    for pr in case.get("pruns", []):
        prune = {E(e) for e in pr["prune"]}
        want_off = sorted(E(e) for e in pr["off"])
        for fr in pr["fruns"]:
            flt = {E(e) for e in fr["flt"]}
            for mode in ("pre", "post", "bfs"):
                exp = [E(e) for e in fr[mode]]
                sub = {"pruns": [{"prune": pr["prune"], "off": pr["off"],
                                  "fruns": [{"flt": fr["flt"], "pre": fr["pre"], "post": fr["post"],
                                             "bfs": fr["bfs"]}]}]}
                obs, off_f, off_p, errs = run_one(root, S, mode, prune, flt)
                if obs != exp:
                    bad(f"{mode}-order", f"{mode}: observed {obs} expected {exp}", sub)
                if errs:
                    bad(f"{mode}-posinfo", f"yielded info does not point at the node: {errs}", sub)
                if sorted(off_f) != want_off:
                    bad(f"{mode}-offered-filter", f"filter saw {sorted(off_f)} expected {want_off}", sub)
                if sorted(off_p) != want_off:
                    bad(f"{mode}-offered-prune", f"prune saw {sorted(off_p)} expected {want_off}", sub)
                if not prune and flt == allE:
                    obs, _, _, errs = run_one(root, S, mode, prune, flt, use_default=True)
                    if obs != exp or errs:
                        bad(f"{mode}-order-default", f"{mode} without predicates: observed {obs} expected {exp}", sub)
    for g in case.get("gather", []):
        cls = tuple(W.cls(c) for c in g["classes"])
        arg = cls[0] if len(cls) == 1 else cls
        prune = {E(e) for e in g["prune"]}
        extra = {E(e) for e in g["extra"]}
        obs = [S.of(n) for n in root.gather(arg, exact_type=g["exact"],
                                            extra_filter=(lambda ni: S.edge(ni) in extra),
                                            prune=(lambda ni: S.edge(ni) in prune))]
        if obs != list(g["res"]):
            bad("gather", f"gather({g['classes']}, exact={g['exact']}): observed {obs} expected {g['res']}",
                {"gather": [g]})
    return out


def _replay(chunk, arg):
    core.use_repo()
    W = World(zoo.BASIC, arg["poolset"])
    viol, n, nontriv = [], 0, set()
    for case in chunk:
        vs = core.safe(check_case, case, W, case)
        for pr in case.get("pruns", []):
            n += 3 * len(pr["fruns"])
            for fr in pr["fruns"]:
                if pr["prune"] and fr["pre"] and len(fr["pre"]) < len(pr["off"]):
                    nontriv.add(hash(json.dumps([case["h"], pr["prune"], fr["flt"]], sort_keys=True)))
        n += len(case.get("gather", [])) + 1
        viol.extend(vs)
    return viol, n, nontriv


def classify(v: core.Violation):
    """known findings of C05 (none recorded: the falsy-child defect is fixed in /repo)."""
    return None


# ---------------------------------------------------------------------------------------------
# code -> spec: record calls on random big trees, validate with Trace_Traverse


def _record(chunk, arg):
    """chunk: list of seeds -> list of recorded ndjson lines"""
    core.use_repo()
    W = World(zoo.BASIC, "plain")
    zi = W.zi
    lines = []
    for seed in chunk:
        rng = random.Random(seed)
        classes = rng.choice([list(zi.order), ["Leaf", "SubLeaf", "Unary", "Many", "SubMany", "Bin"],
                              ["Leaf", "FLeaf", "FUnary", "Unary", "Opt", "Pair", "Many"]])
        nobj = rng.randrange(6, arg["maxobj"])
        h = random_heap(rng, zi, nobj, classes, max_tuple=rng.choice([3, 4, 12]), share=rng.choice([0.0, 0.1, 0.3]))
        objs = W.build(h)
        S = Slots(objs)
        rootname = f"s{nobj}"
        root = objs[rootname]
        alle = [S.edge(x) for x in root.dfs()]
        if len(alle) > 120:
            continue
        uniq = sorted(set(alle))
        base = {"h": h, "root": rootname}
        lines.append({**base, "op": "children", "prune": [], "flt": [], "fall": True,
                      "obs": [S.of(c) for c in root.children]})
        for _ in range(arg["runs"]):
            k = rng.choice([0, 1, 2, len(uniq) // 3])
            prune = set(rng.sample(uniq, min(k, len(uniq))))
            fall = rng.random() < 0.25
            flt = None if fall else set(rng.sample(uniq, rng.randrange(len(uniq) + 1)))
            mode = rng.choice(["pre", "post", "bfs"])
            obs, _, _, _ = run_one(root, S, mode, prune, flt)
            lines.append({**base, "op": {"pre": "dfs_pre", "post": "dfs_post", "bfs": "bfs"}[mode],
                          "prune": sorted(prune), "flt": sorted(flt) if flt is not None else [], "fall": fall,
                          "obs": obs})
        for _ in range(2):
            cs = rng.sample(zi.order + ["ASTNode"], rng.choice([1, 1, 2, 3]))
            cls = tuple(W.cls(c) for c in cs)
            exact = rng.random() < 0.5
            prune = set(rng.sample(uniq, min(rng.choice([0, 1, 2]), len(uniq))))
            fall = rng.random() < 0.5
            flt = None if fall else set(rng.sample(uniq, rng.randrange(len(uniq) + 1)))
            obs = [S.of(n) for n in root.gather(cls if len(cls) > 1 else cls[0], exact_type=exact,
                                                extra_filter=(lambda ni: flt is None or S.edge(ni) in flt),
                                                prune=(lambda ni: S.edge(ni) in prune))]
            lines.append({**base, "op": "gather", "classes": cs, "exact": exact, "prune": sorted(prune),
                          "flt": sorted(flt) if flt is not None else [], "fall": fall, "obs": obs})
    return lines


def trace_validate(chk: core.Check, lines: list, module: str = "Trace_Traverse", name: str = "trace") -> list[int]:
    """Write ndjson, run the trace spec, return rejected line numbers (1-based)."""
    f = chk.wd / f"{name}.ndjson"
    with open(f, "w") as fh:
        for ln in lines:
            fh.write(json.dumps(ln) + "\n")
    cfg = "INIT Init\nNEXT Next\nPOSTCONDITION Done\nCHECK_DEADLOCK FALSE\n"
    r = tlc.run(chk.wd, module, cfg, workers=1, timeout=3000, env={"TRACE_FILE": str(f)})
    chk.note_tlc(f"{module}/{name}", r, "trace-validation")
    return sorted(tlc.rejected(r, len(lines), module))


def run(chk: core.Check):
    quick = chk.tier == "quick"
    chk.rule = ("Gen: every heap of <= N objects over each class profile (TLC, exhaustive), tree rooted at the "
                "newest object, every prune subset x filter subset of its edge set (all subsets for <= 3/4 edges); "
                "a case is non-trivial when the prune set is non-empty and the filter removes something. "
                "Trace: random trees of 6..40 objects with random predicates, validated by Trace_Traverse.")
    allcases = []
    for prof, (_, _, nq, nt, _) in PROFILES.items():
        cases = gen_cases(chk, prof, nq if quick else nt)
        allcases.extend(cases)
        chk.bounds[prof] = {"MaxObjs": nq if quick else nt}
    for c in allcases[:2]:
        chk.sample({"heap": c["h"], "root": c["root"], "n_prune_sets": len(c["pruns"]), "first_prun": c["pruns"][0] if c["pruns"] else None})
    for ps in (["plain"] if quick else ["plain", "adversarial"]):
        for viol, n, nontriv in core.parallel(_replay, allcases, {"poolset": ps}):
            chk.evaluations += n
            chk.nontrivial |= nontriv
            for clause, detail, case in viol:
                chk.add(core.Violation(clause, case, detail))
        chk.replayed += len(allcases)
    chk.exhaustive = True
    # code -> spec
    ntr = 60 if quick else 600
    rng = random.Random(chk.seed)
    seeds = [rng.randrange(1 << 30) for _ in range(ntr)]
    lines = []
    for ls in core.parallel(_record, seeds, {"maxobj": 25 if quick else 40, "runs": 6}):
        lines.extend(ls)
    rejected = trace_validate(chk, lines)
    core.canary(chk, lines, trace_validate, what="Trace_Traverse", skip=set(rejected))
    chk.traces_accepted += len(lines) - len(rejected)
    chk.evaluations += len(lines)
    for i in rejected[:20]:
        ln = lines[i - 1]
        chk.add(core.Violation(f"trace-{ln['op']}", {"m": "traverse-trace", **ln},
                               f"recorded {ln['op']} observation is not what Heap.tla prescribes"))
    if lines:
        chk.sample({"recorded_line": {k: lines[1][k] for k in ("op", "root", "prune", "obs")}})


def replay(chk: core.Check, data: dict) -> None:
    core.use_repo()
    case = data["case"]
    if case.get("m") == "traverse-trace":
        rej = trace_validate(chk, [ {k: v for k, v in case.items() if k != "m"} ])
        # re-record on the current tree
        W = World(zoo.BASIC, "plain")
        objs = W.build(case["h"]); S = Slots(objs); root = objs[case["root"]]
        if case["op"] in ("dfs_pre", "dfs_post", "bfs"):
            mode = {"dfs_pre": "pre", "dfs_post": "post", "bfs": "bfs"}[case["op"]]
            obs, _, _, _ = run_one(root, S, mode, {tuple(e) for e in case["prune"]},
                                   None if case["fall"] else {tuple(e) for e in case["flt"]})
            ln = dict(case); ln.pop("m"); ln["obs"] = obs
            if trace_validate(chk, [ln], name="replay"):
                chk.add(core.Violation(data["clause"], case, "still rejected"))
        return
    W = World(zoo.BASIC, case.get("poolset", "plain"))
    for clause, detail, c in check_case(W, case):
        chk.add(core.Violation(clause, c, detail))
