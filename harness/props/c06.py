"""C06 Tree answers upward queries consistently with the downward structure."""
from . import treeq

PID = "C06"


def run(chk):
    chk.rule = ("Gen: every heap of <= N objects per class profile whose newest object roots a tree without repeated "
                "objects (TLC, exhaustive): for every node parent info, ancestors, depth, path; for every ordered pair "
                "is_ancestor and relative depth (value or ValueError); first ancestor of type for class sets x exact; "
                "nodes outside the tree and content-identical foreign twins must raise KeyError; get_xpath is followed "
                "by an independent walker and must be injective. Non-trivial: trees with >= 3 nodes. Trace: random "
                "trees up to 40 nodes validated by Trace_Tree.tla.")
    treeq.run_gen(chk, "tree")
    treeq.run_traces(chk, "tree", 60 if chk.tier == "quick" else 600, 25 if chk.tier == "quick" else 40)


def replay(chk, data):
    treeq.replay(chk, data)
