"""C01 content_id / is_equal is exactly structural content equality."""
from . import content

PID = "C01"


def run(chk):
    chk.rule = ("Gen: every heap of <= N objects per class profile (TLC, exhaustive); all pairs (newest, other) and "
                "every single-point variation of the newest tree, expected CEq from Heap.tla; replayed under several "
                "concretization pools, against an independently built second copy, and against two other processes "
                "(other PYTHONHASHSEED, reordered field declarations). Non-trivial: content-equal pairs of different "
                "slots and variations that must change / must not change the content id. Trace: random forests with "
                "mutated copies validated by Trace_Content.")
    chk.assumptions += ["blake2b at digest size 8 has no collision among the compared nodes"]
    content.run(chk, PID)


def replay(chk, data):
    content.replay(chk, data, PID)
