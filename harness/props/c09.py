"""C09 Visitor dispatch and transformation follow the rules and keep untouched parts."""
from __future__ import annotations

import dataclasses
import json
import random

from .. import core, inst, tlc, zoo
from .. import pools as P
from ..gen import random_heap, _psize
from ..heap import Slots, World, norm_fn, norm_heap

PID = "C09"
KINDS = ["keep", "rewrite", "replace", "remove", "raise"]


class Boom(Exception):
    pass


def gen_cases(chk, nobj, maxtuple=2):
    mod, cfg = inst.instance(
        "I_Visitor", "Gen_Visitor",
        dict(MaxObjs=nobj, MaxTuple=maxtuple, GenClasses={"SubLeaf", "Unary", "Many", "Opt"}, Origins={0},
             PropAtoms="@op:PA", RuleClasses={"Leaf", "Unary", "Many"}, RuleKinds=set(KINDS)),
        ops=[inst.prop_atoms_def("PA", {}, {0})],
        invariants=["EmitInv", "EmitDispatch", "NoChangeSame", "KeepOnlyIsIdentity", "StrictNarrower"])
    (chk.wd / "I_Visitor.tla").write_text(mod)
    r = tlc.run(chk.wd, "I_Visitor", cfg, workers=core.NPROC, timeout=3000)
    tlc.require_clean(r, "Gen_Visitor")
    chk.note_tlc(f"Gen_Visitor/objs={nobj}/tuple={maxtuple}", r, "mc+gen")
    if r.violated:
        chk.tlc_violation("Gen_Visitor", r)
    return r.json_raw


def atom_of(W, c, f, val):
    pool = P.POOLSETS[W.poolset][f["pool"]]
    for i, x in enumerate(pool):
        if type(x) is type(val) and x == val and repr(x) == repr(val):
            return i
    return 99


def make_visitor(W: World, rules: dict, strict: bool, prepared):
    from pyoak.visitor import ASTTransformVisitor
    ns = {"strict": strict}

    def rewrite(self, node):
        g = self.generic_visit(node)
        c = W.zi_name(g)
        fs = [f for f in W.zi.prop_fields(c) if f["init"]]
        if not fs:
            return dataclasses.replace(g)
        f = fs[0]
        a = atom_of(W, c, f, getattr(g, f["n"]))
        return dataclasses.replace(g, **{f["n"]: W.prop_value(c, f, (a + 1) % min(3, _psize(f)))})

    def boom(self, node):
        raise Boom()

    impl = {"keep": lambda self, node: self.generic_visit(node), "rewrite": rewrite,
            "replace": lambda self, node: prepared, "remove": lambda self, node: None, "raise": boom}
    for cname, kind in rules.items():
        ns["visit_" + (cname if cname == "ASTNode" else W.pre + cname)] = impl[kind]
    return type("GenVisitor", (ASTTransformVisitor,), ns)()


def check_term(W, objs, originals: set, term, obj, path, errs):
    t = term["t"]
    if t == "same":
        if obj is not objs[term["s"]]:
            errs.append(f"{path}: expected the very same object {term['s']}")
        return
    if t == "none":
        if obj is not None:
            errs.append(f"{path}: expected None")
        return
    if obj is None or id(obj) in originals:
        errs.append(f"{path}: expected a new node (an ancestor of a change), got {'None' if obj is None else 'an original object'}")
        return
    src = objs[term["src"]]
    c = W.zi_name(src)
    if type(obj) is not type(src):
        errs.append(f"{path}: class {type(obj).__name__}, expected {type(src).__name__}")
        return
    if obj.origin is not src.origin:
        errs.append(f"{path}: origin differs")
    p = norm_fn(term["p"])
    for f in W.zi.prop_fields(c):
        want = W.prop_value(c, f, p[f["n"]])
        got = getattr(obj, f["n"])
        if type(got) is not type(want) or got != want:
            errs.append(f"{path}.{f['n']} = {got!r}, expected {want!r}")
    k = norm_fn(term["k"])
    for f in W.zi.child_fields(c):
        kt = k[f["n"]]
        val = getattr(obj, f["n"])
        if kt["t"] == "field-same":
            if val is not getattr(src, f["n"]):
                errs.append(f"{path}.{f['n']}: unchanged field does not hold the original value object")
        elif f["kind"] in ("tuple", "ftuple"):
            if not isinstance(val, tuple) or len(val) != len(kt["v"]):
                errs.append(f"{path}.{f['n']}: {len(val) if isinstance(val, tuple) else val!r} elements, expected {len(kt['v'])}")
            else:
                for j, (tt, x) in enumerate(zip(kt["v"], val)):
                    check_term(W, objs, originals, tt, x, f"{path}.{f['n']}[{j}]", errs)
        else:
            check_term(W, objs, originals, kt["v"], val, f"{path}.{f['n']}", errs)


def fingerprint(objs):
    return {s: (tuple((f.name, id(getattr(o, f.name)) if f.name not in ("id", "content_id") else getattr(o, f.name))
                      for f in dataclasses.fields(o)), hash(o)) for s, o in objs.items()}


def check_case(W: World, case: dict) -> list:
    from pyoak.node import NODE_REGISTRY
    out = []
    if case["m"] == "dispatch":
        return check_dispatch(W, case)
    h = norm_heap(case["h"])
    objs = W.build(h)
    originals = {id(o) for o in objs.values()}
    root = objs[case["root"]]
    prepared = objs[case["prepared"]]
    fp = fingerprint(objs)
    regs = {s: NODE_REGISTRY.get(o.id) is o for s, o in objs.items()}
    for run in case["runs"]:
        rules = norm_fn(run["rules"])
        v = make_visitor(W, rules, run["strict"], prepared)
        exp = run["res"]

        def bad(clause, detail):
            out.append((clause, detail, {"m": "visitor", "h": h, "root": case["root"], "prepared": case["prepared"], "runs": [run]}))
        try:
            res = v.transform(root)
        except Boom:
            res = Boom
        except Exception as ex:
            bad("stray-exception", f"rules={rules} strict={run['strict']}: {type(ex).__name__}: {ex}")
            continue
        if exp["t"] == "raise":
            if res is not Boom:
                bad("raise-not-propagated", f"rules={rules} strict={run['strict']}: expected the rule's exception")
        elif res is Boom:
            bad("unexpected-raise", f"rules={rules} strict={run['strict']}: a raising rule ran although dispatch should not reach it")
        else:
            errs: list = []
            check_term(W, objs, originals, exp, res, "result", errs)
            if errs:
                bad("transform-result", f"rules={rules} strict={run['strict']}: " + "; ".join(errs[:3]))
        del res
        if fingerprint(objs) != fp:
            bad("input-modified", f"rules={rules}: the input tree was modified")
            fp = fingerprint(objs)
        if {s: NODE_REGISTRY.get(o.id) is o for s, o in objs.items()} != regs:
            bad("input-unregistered", f"rules={rules}: registry membership of the input changed")
    return out


def instance_of(W, cname):
    m = W.mod
    leaf = W.cls("Leaf")("x")
    mk = {"Leaf": lambda: leaf, "SubLeaf": lambda: W.cls("SubLeaf")("x"), "FLeaf": lambda: W.cls("FLeaf")("x"),
          "Unary": lambda: W.cls("Unary")(leaf), "FUnary": lambda: W.cls("FUnary")(leaf), "Opt": lambda: W.cls("Opt")(),
          "Many": lambda: W.cls("Many")(()), "SubMany": lambda: W.cls("SubMany")(()), "Bin": lambda: W.cls("Bin")(leaf),
          "Pair": lambda: W.cls("Pair")((leaf, leaf))}
    return mk[cname]()


def run_dispatch(W, cname, methods, strict):
    from pyoak.visitor import ASTVisitor
    ns = {"strict": strict, "generic_visit": lambda self, node: "generic"}
    for mname in methods:
        ns["visit_" + (mname if mname == "ASTNode" else W.pre + mname)] = (lambda mname: lambda self, node: mname)(mname)
    V = type("DispatchVisitor", (ASTVisitor,), ns)
    return V().visit(instance_of(W, cname))


def check_dispatch(W, case):
    out = []
    for dc in case["cases"]:
        got = run_dispatch(W, dc["c"], dc["methods"], dc["strict"])
        if got != dc["res"]:
            out.append(("dispatch", f"class {dc['c']} methods {dc['methods']} strict={dc['strict']}: ran {got}, expected {dc['res']}",
                        {"m": "dispatch", "cases": [dc]}))
    return out


def _replay(chunk, arg):
    core.use_repo()
    W = World(zoo.BASIC, "plain")
    viol, n, nontriv = [], 0, set()
    for raw in chunk:
        case = tlc.decode(raw) if isinstance(raw, str) else raw
        viol.extend(core.safe(check_case, case, W, case))
        if case["m"] == "dispatch":
            n += len(case["cases"])
            continue
        n += len(case["runs"])
        for run in case["runs"]:
            if run["res"]["t"] == "new":
                nontriv.add(hash(json.dumps([case["h"], run["rules"], run["strict"]], sort_keys=True)))
    return viol, n, nontriv


# ---------------------------------------------------------------------------------------------


def abstract_result(W, S: Slots, originals, res):
    if res is Boom:
        return {"t": "raise"}
    if res is None:
        return {"t": "none"}
    if id(res) in originals:
        return {"t": "same", "s": S.of(res)}
    c = W.zi_name(res)
    p = {f["n"]: atom_of(W, c, f, getattr(res, f["n"])) for f in W.zi.prop_fields(c)}
    k = {}
    for f in W.zi.child_fields(c):
        v = getattr(res, f["n"])
        if isinstance(v, tuple):
            k[f["n"]] = [abstract_result(W, S, originals, x) for x in v]
        else:
            k[f["n"]] = abstract_result(W, S, originals, v)
    o = [i for i, x in enumerate(W.origins) if x is res.origin]
    return {"t": "new", "c": c, "p": p, "k": k, "o": o[0] if o else 99}


def _record(chunk, arg):
    core.use_repo()
    W = World(zoo.BASIC, "plain")
    zi = W.zi
    lines = []
    classes = ["Leaf", "SubLeaf", "Unary", "Opt", "Bin", "Many", "SubMany", "Pair", "FLeaf"]
    for seed in chunk:
        rng = random.Random(seed)
        nobj = rng.randrange(3, arg["maxobj"])
        h = random_heap(rng, zi, nobj, classes, max_tuple=4, share=0.1, norigins=3)
        objs = W.build(h)
        S = Slots(objs)
        originals = {id(o) for o in objs.values()}
        root = f"s{nobj}"
        for _ in range(arg["runs"]):
            rules = {}
            for c in rng.sample(classes + ["ASTNode"], rng.randrange(0, 4)):
                rules[c] = rng.choice(KINDS if rng.random() < 0.8 else ["keep"])
            strict = rng.random() < 0.4
            prepared = rng.choice(sorted(h))
            v = make_visitor(W, rules, strict, objs[prepared])
            try:
                res = v.transform(objs[root])
            except Boom:
                res = Boom
            lines.append({"op": "transform", "h": h, "root": root, "rules": rules, "strict": strict, "prepared": prepared,
                          "obs": abstract_result(W, S, originals, res)})
        for _ in range(3):
            c = rng.choice(["Leaf", "SubLeaf", "FLeaf", "Unary", "FUnary", "Many", "SubMany", "Opt"])
            ms = rng.sample(["Leaf", "SubLeaf", "Unary", "Many", "SubMany", "ASTNode", "Opt"], rng.randrange(0, 4))
            st = rng.random() < 0.5
            lines.append({"op": "dispatch", "c": c, "methods": ms, "strict": st, "obs": run_dispatch(W, c, ms, st)})
    return lines


def trace_validate(chk, lines, name="trace"):
    f = chk.wd / f"{name}.ndjson"
    with open(f, "w") as fh:
        for ln in lines:
            fh.write(json.dumps(ln) + "\n")
    cfg = "INIT Init\nNEXT Next\nPOSTCONDITION Done\nCHECK_DEADLOCK FALSE\n"
    r = tlc.run(chk.wd, "Trace_Visitor", cfg, workers=1, timeout=3000, env={"TRACE_FILE": str(f)})
    chk.note_tlc(f"Trace_Visitor/{name}", r, "trace-validation")
    return sorted(tlc.rejected(r, len(lines), "Trace_Visitor"))


def run(chk: core.Check):
    quick = chk.tier == "quick"
    chk.rule = ("Gen: tree rooted at the newest object of every heap of <= N objects (TLC, exhaustive) x every rule set "
                "with at most two rules over {Leaf, Unary, Many} x {keep, rewrite, replace by a prepared node, remove, "
                "raise} x strict / non-strict; expected result term with identities from Visitor!Transform; the driver "
                "builds the visitor class, runs transform and checks `is` on unchanged subtrees and unchanged field "
                "values, `is not` (new node) on every ancestor of a change, dropped tuple elements, None in single "
                "fields, propagation of the rule's exception, input fingerprints and registration unchanged; dispatch "
                "for every class x method subset x strictness. Non-trivial: results that contain a new node. Trace: "
                "random trees with random rule sets over ten classes, validated by Trace_Visitor.tla.")
    # (5 objects do not fit: TLC runs out of memory evaluating the rule tables; the thorough tier widens tuples instead)
    raw = gen_cases(chk, 4, 2 if quick else 3)
    chk.bounds["heaps"] = {"MaxObjs": 4, "MaxTuple": 2 if quick else 3}
    if raw:
        c = tlc.decode(raw[len(raw) // 2])
        if c["m"] == "visitor":
            chk.sample({"heap": c["h"], "root": c["root"], "run": c["runs"][len(c["runs"]) // 2]})
    for viol, n, nontriv in core.parallel(_replay, raw, {}, chunk=10):
        chk.evaluations += n
        chk.nontrivial |= nontriv
        for clause, detail, case in viol:
            chk.add(core.Violation(clause, case, detail))
    chk.replayed += len(raw)
    chk.exhaustive = True
    rng = random.Random(chk.seed + 9)
    seeds = [rng.randrange(1 << 30) for _ in range(100 if quick else 1000)]
    lines = []
    for ls in core.parallel(_record, seeds, {"maxobj": 14 if quick else 25, "runs": 8}):
        lines.extend(ls)
    rej = trace_validate(chk, lines)
    core.canary(chk, lines, trace_validate, what="Trace_Visitor", skip=set(rej))
    chk.traces_accepted += len(lines) - len(rej)
    chk.evaluations += len(lines)
    for i in rej[:25]:
        ln = lines[i - 1]
        chk.add(core.Violation("trace-" + ln["op"], {"m": "visitor-trace", **ln},
                               f"recorded {ln['op']} result is not what Visitor.tla prescribes: {json.dumps(ln['obs'])[:200]}"))


def replay(chk, data):
    core.use_repo()
    case = data["case"]
    W = World(zoo.BASIC, "plain")
    if case["m"] in ("visitor", "dispatch"):
        for clause, detail, c in check_case(W, case):
            chk.add(core.Violation(clause, c, detail))
        return
    ln = {k: v for k, v in case.items() if k != "m"}
    if ln["op"] == "transform":
        objs = W.build(ln["h"])
        S = Slots(objs)
        v = make_visitor(W, ln["rules"], ln["strict"], objs[ln["prepared"]])
        try:
            res = v.transform(objs[ln["root"]])
        except Boom:
            res = Boom
        ln["obs"] = abstract_result(W, S, {id(o) for o in objs.values()}, res)
    else:
        ln["obs"] = run_dispatch(W, ln["c"], ln["methods"], ln["strict"])
    if trace_validate(chk, [ln], "replay"):
        chk.add(core.Violation(data["clause"], case, "still rejected by Trace_Visitor"))
