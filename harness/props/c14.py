"""C14 duplicate and replace produce faithful, independent copies."""
from . import registry

PID = "C14"


def run(chk):
    chk.rule = ("MC: DupFaithful / ReplaceFaithful / DcReplaceFaithful on the Registry machine (3 slots, both digest "
                "modes). Gen: every transition whose last step is duplicate / ASTNode.replace / dataclasses.replace "
                "(originals registered or detached, with / without registered twins, shared children, non-init and "
                "non-comparable fields) replayed: new objects everywhere, structure with identities, registration, id "
                "partition, id determinism, unchanged init fields are the same objects. Non-trivial: >= 3 steps. "
                "Trace: recorded random histories validated by Trace_Registry (rejections at dup/replace steps).")
    quick = chk.tier == "quick"
    registry.run_machine(chk, PID, ["leaf-unary-3", "dup-4", "cachey-3"],
                         ["leaf-unary-3", "many-3", "sub-opt-3", "origins-3", "full-3", "dup-4", "dup-5", "cachey-3"], "many-4")
    registry.run_traces(chk, PID, 60 if quick else 800, 30 if quick else 50)


def replay(chk, data):
    registry.replay(chk, data, PID)
