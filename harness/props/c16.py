"""C16 Serialization options apply to the whole call and to nothing after it."""
from __future__ import annotations

import itertools
import json
import random

from .. import core, inst, tlc

PID = "C16"
OPTS = ["skip", "sort", "explorer", "test", "idx", "dialect"]
NOBJ = 3


def opt_sets(maxn):
    return [frozenset(c) for n in range(0, maxn + 1) for c in itertools.combinations(OPTS, n)
            if not ({"explorer", "test"} <= set(c))]


def gen_cases(chk, maxcalls, maxopts, name):
    mod, cfg = inst.instance("I_SerOpts", "Gen_SerOpts",
                             dict(OptSets=set(opt_sets(maxopts)), NObj=NOBJ, MaxCalls=maxcalls, ResetOnDeser=True, ResetInFinally=True),
                             invariants=["Clean", "Sees"], action_constraints=["EmitAct"])
    (chk.wd / "I_SerOpts.tla").write_text(mod)
    r = tlc.run(chk.wd, "I_SerOpts", cfg, workers=core.NPROC, timeout=3000)
    tlc.require_clean(r, "SerOpts")
    chk.note_tlc(f"SerOpts/{name}", r, "mc+gen")
    if r.violated:
        chk.tlc_violation("SerOpts-" + name, r)
    return r.json_raw


def mutant_models(chk):
    """vacuity control: the two calibration mutants, as spec variants, must violate Clean"""
    out = {}
    for nm, (rd, rf) in {"no_reset_on_deser": (False, True), "no_finally": (True, False)}.items():
        mod, cfg = inst.instance("I_SerOpts", "Gen_SerOpts",
                                 dict(OptSets=set(opt_sets(1)), NObj=NOBJ, MaxCalls=2, ResetOnDeser=rd, ResetInFinally=rf),
                                 invariants=["Clean", "Sees"])
        (chk.wd / "I_SerOpts.tla").write_text(mod)
        r = tlc.run(chk.wd, "I_SerOpts", cfg, workers=4, timeout=600)
        out[nm] = r.violated
        if not r.violated:
            raise tlc.MachineryError(f"spec variant {nm} does not violate Clean: the invariant is vacuous")
    return out


class Env:
    def __init__(self):
        from mashumaro.dialect import Dialect
        from pyoak.node import AST_SERIALIZE_DIALECT_KEY, ASTSerializationDialects
        from pyoak.origin import SOURCE_OPTIMIZED_SERIALIZATION_KEY, CodeOrigin, MemoryTextSource, get_code_range
        from pyoak.serialize import TYPE_KEY, SerializationOption

        from ..c16models import load
        self.M = load()
        M = self.M
        src = MemoryTextSource("abcdef", source_uri="c16")
        org = lambda a, b: CodeOrigin(src, get_code_range(a, 1, a, b, 1, b))
        n3 = M.BNode("n3", M.Bomb("b3"), items=(M.BLeaf("l3", origin=org(4, 5)),), origin=org(3, 5))
        n2 = M.BNode("n2", M.Bomb("b2"), kid=n3, items=(M.BLeaf("l2"),), origin=org(1, 5))
        self.root = M.BNode("n1", M.Bomb("b1"), kid=n2, items=(M.BLeaf("l1", origin=org(0, 1)), M.BLeaf("l1b")), origin=org(0, 5))
        self.TYPE_KEY = TYPE_KEY

        class IntAsStr(Dialect):
            serialization_strategy = {int: {"serialize": lambda x: f"i{x}", "deserialize": lambda s: int(s[1:])}}
        self.D = IntAsStr
        self.optmap = {
            "skip": {SerializationOption.SKIP_CLASS: True},
            "sort": {SerializationOption.SORT_KEYS: True},
            "explorer": {AST_SERIALIZE_DIALECT_KEY: ASTSerializationDialects.AST_EXPLORER},
            "test": {AST_SERIALIZE_DIALECT_KEY: ASTSerializationDialects.AST_TEST},
            "idx": {SOURCE_OPTIMIZED_SERIALIZATION_KEY: True},
        }
        self.default = self.root.as_dict()
        self.default_json = self.root.to_json()
        # unregistered originals: reading a payload really re-creates every node (and reaches the corrupted one)
        self.root.detach()

    def kwargs(self, opts, api):
        so = {}
        for o in opts:
            if o in self.optmap:
                so.update(self.optmap[o])
        kw = {"serialization_options": so if so else None}
        if "dialect" in opts and api in ("as_dict", "to_yaml", "as_obj", "from_yaml"):
            kw["mashumaro_dialect"] = self.D
        return kw


def mappings(x, path=()):
    """every nested mapping with its path"""
    if isinstance(x, dict):
        yield path, x
        for k, v in x.items():
            yield from mappings(v, path + (k,))
    elif isinstance(x, (list, tuple)):
        for i, v in enumerate(x):
            yield from mappings(v, path + (i,))


def kind_of(m: dict) -> str:
    ks = set(m)
    if "id" in ks and "content_id" in ks:
        return "node"
    if "source" in ks and "position" in ks:
        return "origin"
    if "source_uri" in ks or "source_type" in ks:
        return "source"
    if "index" in ks and "line" in ks:
        return "codepoint"
    if "start" in ks and "end" in ks:
        return "position"
    if ks == {"idx"}:
        return "idxref"
    if not ks:
        return "empty"
    if "bomb" in ks:
        return "bomb"
    return "other"


def check_features(E: Env, opts: set, out: dict, ordered: bool, dialect_applies: bool) -> list[str]:
    errs = []
    T = E.TYPE_KEY
    child_fields = {"BNode": ["kid", "items"], "BLeaf": []}
    for path, m in mappings(out):
        k = kind_of(m)
        in_test_source = "test" in opts and len(path) >= 2 and path[-2:] == ("origin", "source")
        if k in ("bomb", "other", "empty", "idxref"):
            continue
        if "skip" in opts:
            if T in m and not in_test_source:
                errs.append(f"tag suppression: {'/'.join(map(str, path))} carries a type tag")
        elif "test" not in opts:
            if T not in m:
                errs.append(f"default tagging: {k} at {'/'.join(map(str, path))} has no type tag")
        if "sort" in opts and ordered:
            keys = list(m)
            rest = [x for x in keys if x != T]
            if (T in m and keys[0] != T) or rest != sorted(rest):
                errs.append(f"key sorting: {k} at {'/'.join(map(str, path))} lists {keys}")
        if k == "node":
            if "explorer" in opts:
                cls = m.get(T) or ("BNode" if "kid" in m else "BLeaf")
                if m.get("_children") != child_fields[cls]:
                    errs.append(f"explorer dialect: node at {'/'.join(map(str, path))} has _children={m.get('_children')}")
            elif "_children" in m:
                errs.append(f"node at {'/'.join(map(str, path))} lists _children without the explorer dialect")
            if "test" in opts and m.get("origin", {}).get("source") != {T: "Source", "source_uri": "", "source_type": ""}:
                errs.append(f"test dialect: origin.source of node at {'/'.join(map(str, path))} is {m.get('origin', {}).get('source')}")
        if k == "source" and "idx" in opts and not in_test_source:
            errs.append(f"index-based sources: full source at {'/'.join(map(str, path))}")
        if k == "node":
            num = m.get("num")
            if dialect_applies and not isinstance(num, str):
                errs.append(f"mashumaro dialect not applied to node at {'/'.join(map(str, path))}: num={num!r}")
            if not dialect_applies and not isinstance(num, int):
                errs.append(f"node at {'/'.join(map(str, path))}: num={num!r} without a dialect")
    if "idx" in opts and "test" not in opts and not any(kind_of(m) == "idxref" for _, m in mappings(out)):
        errs.append("index-based sources: no idx reference in the output")
    return errs


SER_APIS = ["as_dict", "to_json", "to_msgpck", "to_yaml"]
DES_APIS = ["as_obj", "from_json", "from_msgpck", "from_yaml"]


def run_behaviour(E: Env, calls: list, rot: int) -> list:
    import msgpack
    import yaml
    M = E.M
    errs = []
    for ci, c in enumerate(calls):
        opts = set(c["opts"])
        fail = c["fail"]
        api = (SER_APIS if c["kind"] == "ser" else DES_APIS)[(rot + ci) % 4]
        kw = E.kwargs(opts, api)
        if api in ("to_json", "to_msgpck", "from_json", "from_msgpck"):
            kw.pop("mashumaro_dialect", None)
        raised = None
        out = None
        try:
            if c["kind"] == "ser":
                M.Bomb.armed = f"b{fail}" if fail else False
                res = getattr(E.root, api)(**kw)
                out = {"as_dict": lambda: res, "to_json": lambda: json.loads(res), "to_msgpck": lambda: msgpack.unpackb(res, raw=False),
                       "to_yaml": lambda: yaml.safe_load(res)}[api]()
            else:
                payload = json.loads(json.dumps(E.default, default=str))
                if "dialect" in opts and api in ("as_obj", "from_yaml"):
                    payload = E.root.as_dict(mashumaro_dialect=E.D)
                    payload = json.loads(json.dumps(payload))
                if fail:
                    node = payload
                    for _ in range(fail - 1):
                        node = node["kid"]
                    node["bomb"] = {"boom": 1}
                data = {"as_obj": lambda: payload, "from_json": lambda: json.dumps(payload), "from_msgpck": lambda: msgpack.packb(payload),
                        "from_yaml": lambda: yaml.safe_dump(payload)}[api]()
                getattr(M.BNode, api)(data, **kw)
        except Exception as ex:
            raised = ex
        finally:
            M.Bomb.armed = False
        if bool(fail) != (raised is not None):
            errs.append((f"call {ci + 1} {api}{sorted(opts)} fail={fail}: {'raised ' + repr(raised) if raised else 'returned'}", "outcome"))
        if out is not None:
            da = "dialect" in opts and api in ("as_dict", "to_yaml")
            for e in check_features(E, opts, out, ordered=(api != "to_yaml"), dialect_applies=da):
                errs.append((f"call {ci + 1} {api}{sorted(opts)}: {e}", "features:" + e.split(":")[0]))
        # nothing after the call: the default output is unchanged
        probe = E.root.as_dict()
        if probe != E.default or list(probe) != list(E.default) or E.root.to_json() != E.default_json:
            errs.append((f"after call {ci + 1} {api}{sorted(opts)} ({'raised' if raised else 'returned'}): a call without options "
                         f"no longer produces the default output", "leak-after-" + c["kind"]))
    return errs


def _replay(chunk, arg):
    core.use_repo()
    E = Env()
    viol, n, nontriv = [], 0, set()
    for j, raw in enumerate(chunk):
        beh = tlc.decode(raw) if isinstance(raw, str) else raw
        calls = beh["calls"]
        for rot in ((0, 1, 2, 3) if len(calls) == 1 else ((j % 4),)):
            for detail, clause in run_behaviour(E, calls, rot):
                viol.append((clause, detail, {"m": "seropts", "calls": calls, "rot": rot}))
            n += len(calls)
        if any(c["opts"] for c in calls) and (len(calls) > 1 or calls[0]["fail"]):
            nontriv.add(hash(raw if isinstance(raw, str) else json.dumps(calls)))
    return viol, n, nontriv


def exhibited(E: Env, m: dict) -> list:
    """which options the serialized form of one node shows"""
    T = E.TYPE_KEY
    out = []
    keys = [k for k in m]
    rest = [k for k in keys if k != T]
    if T not in m:
        out.append("skip")
    if rest == sorted(rest) and (T not in m or keys[0] == T):
        out.append("sort")
    if "_children" in m:
        out.append("explorer")
    src = m.get("origin", {}).get("source")
    if src == {T: "Source", "source_uri": "", "source_type": ""}:
        out.append("test")
    if isinstance(src, dict) and set(src) == {"idx"}:
        out.append("idx")
    if isinstance(m.get("num"), str):
        out.append("dialect")
    return out


def _record(chunk, arg):
    core.use_repo()
    E = Env()
    M = E.M
    lines = []
    for seed in chunk:
        rng = random.Random(seed)
        for seq in range(arg["calls"]):
            kind = rng.choice(["ser", "ser", "deser"])
            opts = [o for o in OPTS if rng.random() < 0.35]
            if "explorer" in opts and "test" in opts:
                opts.remove(rng.choice(["explorer", "test"]))
            fail = rng.choice([0, 0, 0, 1, 2, 3])
            api = "as_dict" if kind == "ser" else "as_obj"
            kw = E.kwargs(set(opts), api)
            seen = []
            outcome = "returned"
            try:
                if kind == "ser":
                    M.Bomb.armed = f"b{fail}" if fail else False
                    res = E.root.as_dict(**kw)
                    node = res
                    while isinstance(node, dict):
                        seen.append(exhibited(E, node))
                        node = node.get("kid")
                else:
                    payload = json.loads(json.dumps(E.root.as_dict(mashumaro_dialect=E.D) if "dialect" in opts else E.default))
                    if fail:
                        node = payload
                        for _ in range(fail - 1):
                            node = node["kid"]
                        node["bomb"] = {"boom": 1}
                    M.BNode.as_obj(payload, **kw)
            except Exception:
                outcome = "raised"
            finally:
                M.Bomb.armed = False
            probe = E.root.as_dict()
            clean = probe == E.default and list(probe) == list(E.default) and E.root.to_json() == E.default_json
            lines.append({"tid": seed, "seq": seq, "kind": kind, "opts": opts, "fail": fail, "outcome": outcome, "seen": seen,
                          "clean": clean})
    return lines


def trace_validate(chk, lines, name="trace"):
    f = chk.wd / f"{name}.ndjson"
    with open(f, "w") as fh:
        for ln in lines:
            fh.write(json.dumps(ln) + "\n")
    mod, cfg = inst.instance("I_TraceSerOpts", "Trace_SerOpts",
                             dict(OptSets=set(), NObj=NOBJ, MaxCalls=0, ResetOnDeser=True, ResetInFinally=True),
                             init="TInit", next_="TNext", postcondition="Done", extra_cfg=["CHECK_DEADLOCK FALSE"])
    (chk.wd / "I_TraceSerOpts.tla").write_text(mod)
    r = tlc.run(chk.wd, "I_TraceSerOpts", cfg, workers=1, timeout=3000, env={"TRACE_FILE": str(f)})
    chk.note_tlc(f"Trace_SerOpts/{name}", r, "trace-validation")
    return sorted(tlc.rejected(r, len(lines), "Trace_SerOpts"))


def run(chk: core.Check):
    quick = chk.tier == "quick"
    chk.rule = ("MC: the option-store machine (SerOpts.tla): Clean (store empty between calls) and Sees (every nested "
                "object of a call sees exactly the call's options) over all sequences of <= 2 (quick) / 3 (thorough) calls "
                "x option subsets x failure at every nested object; the two calibration mutants as spec variants must "
                "violate Clean (vacuity control). Gen: every completed call sequence is replayed on a 3-level tree whose "
                "nodes carry a property that can be armed to fail (serialization) or a corrupted payload (deserialization), "
                "rotating through as_dict / to_json / to_msgpck / to_yaml and the readers: outcome, per-object output "
                "features (tag first + sorted keys, no tags, default tagging, _children, rewritten sources, idx references, "
                "mashumaro dialect applied) and after every call a default probe must equal the default output. "
                "Non-trivial: sequences with options and either two calls or a failure. Trace: random sequences of 25 calls with "
                "arbitrary option subsets and failure points, each call recorded with what every nested node exhibited and "
                "whether a default probe stayed default, validated by Trace_SerOpts.tla.")
    chk.notes["spec_mutants_violate"] = mutant_models(chk)
    raw = gen_cases(chk, 2 if quick else 2, 2 if quick else 3, "seq")
    if not quick:
        raw = raw + gen_cases(chk, 3, 1, "seq3")
    chk.bounds = {"max_calls": 2 if quick else 3, "max_options_per_call": 2 if quick else 3, "nested_objects": NOBJ}
    chk.sample(tlc.decode(raw[len(raw) // 2]))
    for viol, n, nontriv in core.parallel(_replay, raw, {}, chunk=200):
        chk.evaluations += n
        chk.nontrivial |= nontriv
        for clause, detail, case in viol:
            chk.add(core.Violation(clause, case, detail))
    chk.replayed += len(raw)
    chk.exhaustive = True
    rng = random.Random(chk.seed + 31)
    lines = []
    for ls in core.parallel(_record, [rng.randrange(1 << 30) for _ in range(32 if quick else 320)], {"calls": 25}):
        lines.extend(ls)
    rej = trace_validate(chk, lines)
    core.canary(chk, lines, trace_validate, corrupt=lambda ln: dict(ln, clean=not ln["clean"]), what="Trace_SerOpts", skip=set(rej))
    chk.traces_accepted += len(lines) - len(rej)
    chk.evaluations += len(lines)
    for i in rej[:25]:
        ln = lines[i - 1]
        chk.add(core.Violation("trace-call", {"m": "seropts-trace", "line": ln},
                               f"recorded call {ln['kind']}{ln['opts']} fail={ln['fail']}: outcome={ln['outcome']} seen={ln['seen']} clean={ln['clean']}"))
    chk.sample({"recorded": lines[0]})


def replay(chk, data):
    core.use_repo()
    E = Env()
    case = data["case"]
    if case["m"] == "seropts-trace":
        ln = case["line"]
        lines = [x for x in _record([ln["tid"]], {"calls": ln["seq"] + 1})]
        if trace_validate(chk, lines, "replay"):
            chk.add(core.Violation(data["clause"], case, "still rejected by Trace_SerOpts"))
        return
    for detail, clause in run_behaviour(E, case["calls"], case.get("rot", 0)):
        chk.add(core.Violation(clause, case, detail))
