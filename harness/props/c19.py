"""C19 A rejected legacy operation changes nothing."""
from . import legacy

PID = "C19"
ZOO = "legacy"


def classify_line(ln, outcome, clause, mv=None):
    """modelled operations: known iff the post-state is exactly the one Legacy.tla predicts and the model's error came
    out of the attach phase (the named deviation); user transformations (not modelled): by the shape predicates"""
    if mv is not None:
        return "partial-attach-effects" if mv["conform"] and mv["partial"] else None
    return legacy.finding_partial_attach(ln, outcome, clause) or legacy.finding_transformer_partial(ln, outcome, clause)


def run(chk):
    chk.rule = ("Gen: the programs of C18 (TLC-enumerated and random); every distinct observed transition whose operation "
                "was rejected with a documented error, from a state reached by successful operations, is judged by "
                "LegacyMonitor.tla (C19Clauses): attached?, parent / field / index, field values, id, original id, "
                "content_id of every pre-existing node and the registry size are unchanged. Non-trivial: witness programs "
                "with at least two operations.")
    legacy.run(chk, PID, classify_line)


def replay(chk, data):
    legacy.replay(chk, data, PID, classify_line)
