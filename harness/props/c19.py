"""C19 A rejected legacy operation changes nothing."""
from . import legacy

PID = "C19"
ZOO = "legacy"


def classify_line(ln, outcome, clause, mv=None):
    """known iff the observed post-state is exactly the one Legacy.tla predicts and the model's error left effects behind
    by design: out of the attach phase (partial-attach-effects), or out of ASTTransformer.execute after earlier
    replacements (transformer-partial-effects).  A visitor transformation that leaves effects is not on file."""
    if mv is None or not (mv["conform"] and mv["partial"]):
        return None
    kind = ln["op"]["op"]
    if kind == "texec":
        return "transformer-partial-effects"
    if kind == "tvisit":
        return None
    return "partial-attach-effects"


def run(chk):
    chk.rule = ("Gen: the programs of C18 (TLC-enumerated and random); every distinct observed transition whose operation "
                "was rejected with a documented error, from a state reached by successful operations, is judged by "
                "LegacyMonitor.tla (C19Clauses): attached?, parent / field / index, field values, id, original id, "
                "content_id of every pre-existing node and the registry size are unchanged. Non-trivial: witness programs "
                "with at least two operations.")
    legacy.run(chk, PID, classify_line)


def replay(chk, data):
    legacy.replay(chk, data, PID, classify_line)
