"""C19 A rejected legacy operation changes nothing."""
from . import legacy

PID = "C19"
ZOO = "legacy"


def classify_line(ln, outcome, clause, mv=None):
    """known iff the observed post-state is exactly the one Legacy.tla predicts and the model's error left effects behind
    by design: out of the attach phase (partial-attach-effects), out of ASTTransformer.execute after earlier
    replacements (transformer-partial-effects), or out of a visitor run on a detached receiver with attached children
    (visitor-partial-effects).  A visitor run on an attached receiver that leaves effects is not on file."""
    if mv is None or not (mv["conform"] and mv["partial"]):
        return None
    kind = ln["op"]["op"]
    if kind == "texec":
        return "transformer-partial-effects"
    if kind == "tvisit":
        # a visitor works on a clone of an *attached* receiver and is atomic there (LegacyMC: C19VisitorAtomic); a
        # *detached* receiver is visited in place, and its attached children are cloned and replaced one by one
        recv = ln["pre"].get(f"h{ln['op']['a']}")
        return "visitor-partial-effects" if recv is not None and recv["det"] else None
    return "partial-attach-effects"


def run(chk):
    chk.rule = ("Gen: the programs of C18 (TLC-enumerated and random); every distinct observed transition whose operation "
                "was rejected with a documented error, from a state reached by successful operations, is judged by "
                "LegacyMonitor.tla (C19Clauses): attached?, parent / field / index, field values, id, original id, "
                "content_id of every pre-existing node and the registry size are unchanged. Non-trivial: witness programs "
                "with at least two operations.")
    legacy.run(chk, PID, classify_line)


def replay(chk, data):
    legacy.replay(chk, data, PID, classify_line)
