"""C10 No operation ever modifies an existing node."""
from . import registry

PID = "C10"


def run(chk):
    chk.rule = ("MC: Immutable / MembershipFrame / FailFrame action properties of the Registry machine. Gen: every "
                "transition of instances that add an Observe action per read-only operation kind (traversals, Tree "
                "queries, xpath, patterns, visiting, transforming, comparison / hash, pretty printing, accessors, "
                "(de)serialization in 4 formats, setattr / delattr on every field) is replayed; before every call the "
                "driver fingerprints every live node (identity of each field value, id, content_id, hash) and compares "
                "after it; the full abstract state (registry included) must equal the spec's unchanged state. "
                "Non-trivial: >= 3 steps. Trace: recorded random histories (fingerprints checked at each step).")
    quick = chk.tier == "quick"
    registry.run_machine(chk, PID, ["observe-3", "observe-org-2", "picky-3", "leaf-unary-3"], ["observe-3", "observe-org-2", "picky-3", "observe-4", "leaf-unary-3", "many-3", "ser-3q"], None)
    registry.run_traces(chk, PID, 60 if quick else 800, 30 if quick else 50, ser=True)


def replay(chk, data):
    registry.replay(chk, data, PID)
