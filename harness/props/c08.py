"""C08 Pattern matching follows the documented semantics; captures are exact objects."""
from __future__ import annotations

import json
import random

from .. import core, inst, tlc, zoo
from .. import pools as P
from ..gen import random_heap
from ..heap import Slots, World, norm_fn, norm_heap
from ..pattext import render

PID = "C08"

PROFILES = {
    # name: (classes, prop table, objs quick, objs thorough, MaxTuple quick, MaxTuple thorough)
    # (struct with 4 objects runs TLC out of memory: the thorough tier widens tuples instead)
    "props": (["Leaf", "SubLeaf", "Opt"], {("Leaf", "a"): {0, 1}, ("SubLeaf", "c"): {0, 1}}, 3, 4, 1, 1),
    "struct": (["Leaf", "Unary", "Many", "Bin"], {("Leaf", "a"): {0, 1}}, 3, 3, 2, 3),
}


def gen_cases(chk, profile, nobj, thorough=False, wd=None, tag=""):
    classes, ptab, _, _, mtq, mtt = PROFILES[profile]
    mt = mtt if thorough else mtq
    mod, cfg = inst.instance(
        "I_Pattern", "Gen_Pattern",
        dict(MaxObjs=nobj, MaxTuple=mt, GenClasses=set(classes), Origins={0, 1}, PropAtoms="@op:PA"),
        ops=[inst.prop_atoms_def("PA", ptab, {0})],
        invariants=["EmitInv", "ExactMatches", "AllWellFormed", "MultiFirst"])
    wd = wd or chk.wd
    (wd / "I_Pattern.tla").write_text(mod)
    r = tlc.run(wd, "I_Pattern", cfg, workers=core.NPROC, timeout=3000)
    tlc.require_clean(r, f"Gen_Pattern/{profile}{tag}")
    chk.note_tlc(f"Gen_Pattern/{profile}{tag}/objs={nobj}", r, "mc+gen")
    if r.violated:
        chk.tlc_violation(f"Gen_Pattern-{profile}{tag}", r)
    return r.json_raw


def abstract_value(W: World, S: Slots, node, fname: str | None, v):
    """python value captured -> the spec's value shape"""
    from pyoak.node import ASTNode
    if isinstance(v, ASTNode):
        return {"k": "node", "s": S.of(v)}
    if isinstance(v, tuple) and all(isinstance(x, ASTNode) for x in v):
        return {"k": "tuple", "ss": [S.of(x) for x in v]}
    return {"k": "atom?", "v": v}


def caps_match(W: World, S: Slots, objs, got: dict, exp: dict) -> str | None:
    exp = norm_fn(exp)
    if set(got) != set(exp):
        return f"capture names {sorted(got)} expected {sorted(exp)}"
    for nm, ev in exp.items():
        gv = got[nm]
        if ev["k"] == "node":
            if gv is not objs[ev["s"]]:
                return f"capture {nm} is not the very node {ev['s']}"
        elif ev["k"] == "tuple":
            if not isinstance(gv, tuple) or len(gv) != len(ev["ss"]) or any(g is not objs[s] for g, s in zip(gv, ev["ss"])):
                return f"capture {nm} is not the tuple of the very nodes {ev['ss']}"
        elif ev["k"] == "none":
            if gv is not None:
                return f"capture {nm} is {gv!r}, expected None"
        else:
            want = P.POOLSETS[W.poolset][ev["pool"]][ev["a"]]
            if type(gv) is not type(want) or gv != want:
                return f"capture {nm} is {gv!r}, expected {want!r}"
    return None


def check_case(W: World, case: dict) -> list:
    from pyoak.match import pattern as PT
    out = []
    h = norm_heap(case["h"])
    objs = W.build(h)
    S = Slots(objs)
    node = objs[case["root"]]

    def bad(clause, detail, sub):
        out.append((clause, detail, {"m": "pattern", "h": h, "root": case["root"], "poolset": W.poolset, **sub}))

    twin_objs = W.build(h) if case.get("pats") else None
    pats = case.get("pats", [])
    texts = [render(pc["p"], W.pre, ["", " ", "  \n "][j % 3]) for j, pc in enumerate(pats)]
    PT._MATCHER_CACHE.clear()
    compiled = []
    for pc, text in zip(pats, texts):
        m, msg = PT.NodeMatcher.from_pattern(text)
        compiled.append(m)
        if m is None:
            bad("compile", f"{text!r} rejected: {msg}", {"pats": [pc], "text": text})
    # match only after everything was compiled: results must not depend on what else exists
    for phase in ("first", "cached", "recompiled", "multi"):
        for pc, text, m in zip(pats, texts, compiled):
            if m is None:
                continue
            exp = pc["res"]
            if phase == "cached":
                m2, _ = PT.NodeMatcher.from_pattern(text)
            elif phase == "recompiled":
                PT._MATCHER_CACHE.pop(text, None)
                m2, _ = PT.NodeMatcher.from_pattern(text)
            else:
                m2 = m
            if m2 is None:
                bad("compile-" + phase, f"{text!r} rejected on {phase} compile", {"pats": [pc], "text": text})
                continue
            if phase == "multi":
                mm = PT.MultiPatternMatcher([("other", "(" + W.pre + "Two)"), ("r", text)])
                if twin_objs is not None:
                    mm.match(twin_objs[case["root"]], ["r"])
                res = mm.match(node, ["r"])
                ok, caps = (res is not None), (dict(res[1]) if res else {})
            else:
                ok, caps = m2.match(node)
                caps = dict(caps)
            sub = {"pats": [pc], "text": text, "phase": phase}
            if ok != exp["ok"]:
                bad("verdict", f"{text!r} ({phase}): matched={ok}, expected {exp['ok']}", sub)
                continue
            if not ok and caps:
                bad("captures-on-failure", f"{text!r}: {caps}", sub)
            if ok:
                why = caps_match(W, S, objs, caps, exp["caps"])
                if why:
                    bad("captures", f"{text!r} ({phase}): {why}", sub)
    twins = None
    for mc in case.get("multi", []):
        defs = [(f"r{j + 1}", render(r, W.pre)) for j, r in enumerate(mc["rules"])]
        try:
            mm = PT.MultiPatternMatcher(defs)
        except Exception as ex:
            bad("multi-compile", f"{defs}: {ex}", {"multi": [mc]})
            continue
        # one matcher instance, several nodes: first a content-equal twin built separately, then the node itself --
        # results must not depend on earlier matches
        if twins is None:
            twins = W.build(h)
        mm.match(twins[case["root"]])
        res = mm.match(node)
        rule = 0 if res is None else int(res[0][1:])
        if rule != mc["res"]["rule"]:
            bad("multi-rule", f"{defs}: rule {rule}, expected {mc['res']['rule']}", {"multi": [mc]})
        elif res is not None:
            why = caps_match(W, S, objs, dict(res[1]), mc["res"]["caps"])
            if why:
                bad("multi-captures", f"{defs}: {why}", {"multi": [mc]})
    return out


def _replay(chunk, arg):
    core.use_repo()
    W = World(zoo.BASIC, arg.get("poolset", "plain"))
    viol, n, nontriv = [], 0, set()
    for raw in chunk:
        case = tlc.decode(raw) if isinstance(raw, str) else raw
        viol.extend(core.safe(check_case, case, W, case))
        n += 4 * len(case["pats"]) + len(case["multi"])
        for pc in case["pats"]:
            if pc["res"]["ok"] and pc["p"]["fields"]:
                nontriv.add(hash(json.dumps([case["h"], pc["p"]], sort_keys=True)))
    return viol, n, nontriv


# ---------------------------------------------------------------------------------------------
# code -> spec: random patterns written against random nodes


class PGen:
    def __init__(self, rng, W, h):
        self.rng, self.W, self.h, self.zi = rng, W, h, W.zi
        self.caps: list[str] = []
        self.n = 0

    def newcap(self, p=0.3):
        if self.rng.random() < p:
            self.n += 1
            name = "c" + "abcdefghij"[self.n % 10] * (1 + self.n // 10)
            self.caps.append(name)
            return name
        return ""

    def spec_for(self, s: str, f: dict, depth: int):
        rng, h = self.rng, self.h
        rec = h[s]
        r = rng.random()
        if self.caps and r < 0.08:
            return {"t": "var", "name": rng.choice(self.caps)}
        if f["kind"] == "prop":
            pool = P.POOLSETS["plain"][f["pool"]]
            simple = all(isinstance(x, (str, int, type(None))) and str(x).isascii() and str(x).isprintable() for x in pool[:3])
            a = rec["p"][f["n"]]
            if not simple or a > 2 or r < 0.3:
                return {"t": "any"}
            val = pool[a]
            if val is None:
                return {"t": "none"} if r < 0.8 else {"t": "re", "toks": list("None"), "dollar": True}
            sv = list(str(val))
            k = rng.random()
            if k < 0.4:
                return {"t": "re", "toks": sv, "dollar": rng.random() < 0.5}
            if k < 0.6 and sv:
                return {"t": "re", "toks": sv[:rng.randrange(1, len(sv) + 1)], "dollar": rng.random() < 0.3}
            if k < 0.75 and sv:
                return {"t": "re", "toks": sv[-1:], "dollar": False}
            if k < 0.85:
                return {"t": "re", "toks": ["." if rng.random() < 0.5 else c for c in sv], "dollar": rng.random() < 0.5}
            return rng.choice([{"t": "none"}, {"t": "empty"}, {"t": "re", "toks": ["q"], "dollar": False}])
        v = rec["k"][f["n"]]
        if f["kind"] in ("tuple", "ftuple"):
            if r < 0.15:
                return {"t": "any"}
            if not v:
                if rng.random() < 0.5:
                    return {"t": "empty"}
                return {"t": "seq", "items": [], "tail": True, "tailcap": self.newcap()}
            cut = rng.choice([len(v), len(v), rng.randrange(len(v) + 1)])
            items = []
            for t in v[:cut]:
                sp = self.tree_for(t, depth - 1) if depth > 0 and rng.random() < 0.7 else {"t": "tree", "classes": ["*"], "fields": []}
                items.append({"v": sp, "cap": self.newcap(0.25)})
            if rng.random() < 0.12:
                items.append({"v": {"t": "tree", "classes": ["*"], "fields": []}, "cap": ""})      # one too many
            tail = cut < len(v) or rng.random() < 0.3
            if rng.random() < 0.08:
                tail = not tail
            return {"t": "seq", "items": items, "tail": tail, "tailcap": self.newcap() if tail else ""}
        if v == "none":
            return rng.choice([{"t": "none"}, {"t": "none"}, {"t": "any"}, {"t": "tree", "classes": ["*"], "fields": []}])
        if r < 0.2:
            return {"t": "any"}
        if r < 0.27:
            return {"t": "none"}
        return self.tree_for(v, depth - 1) if depth > 0 else {"t": "tree", "classes": [h[v]["c"]], "fields": []}

    def tree_for(self, s: str, depth: int):
        rng, zi = self.rng, self.zi
        c = self.h[s]["c"]
        k = rng.random()
        if k < 0.55:
            classes = [c]
        elif k < 0.7:
            classes = [zi.mro(c)[min(1, len(zi.mro(c)) - 1)]]
        elif k < 0.8:
            classes = ["*"]
        elif k < 0.92:
            classes = sorted({c, rng.choice(zi.order)})
        else:
            classes = [rng.choice(zi.order)]
        fields = []
        fs = zi.fields(c)
        rng.shuffle(fs)
        for f in fs[: rng.randrange(0, min(3, len(fs)) + 1)]:
            sp = self.spec_for(s, f, depth)
            fields.append({"name": f["n"], "spec": sp, "cap": self.newcap()})
        if rng.random() < 0.05:
            fields.append({"name": "nofield", "spec": {"t": "any"}, "cap": ""})
        return {"t": "tree", "classes": classes, "fields": fields}


def value_of_capture(W, S, v):
    from pyoak.node import ASTNode
    if v is None:
        return {"k": "none"}
    if isinstance(v, ASTNode):
        return {"k": "node", "s": S.of(v)}
    if isinstance(v, tuple):
        return {"k": "tuple", "ss": [S.of(x) for x in v]}
    return None


def _record(chunk, arg):
    from pyoak.match import pattern as PT
    core.use_repo()
    W = World(zoo.BASIC, "plain")
    zi = W.zi
    lines = []
    classes = ["Leaf", "SubLeaf", "Unary", "Opt", "Bin", "Many", "SubMany", "Pair", "FLeaf"]
    for seed in chunk:
        rng = random.Random(seed)
        nobj = rng.randrange(3, arg["maxobj"])
        h = random_heap(rng, zi, nobj, classes, max_tuple=4, share=0.1, norigins=2)
        objs = W.build(h)
        S = Slots(objs)
        for _ in range(arg["pats"]):
            n = rng.choice(sorted(h))
            g = PGen(rng, W, h)
            p = g.tree_for(n, rng.choice([0, 1, 2, 3]))
            text = render(p, W.pre, rng.choice(["", " "]))
            m, msg = PT.NodeMatcher.from_pattern(text)
            if m is None:
                lines.append({"h": h, "n": n, "op": "match", "p": p, "text": text, "ok": "rejected", "caps": {}, "msg": msg})
                continue
            tgt = rng.choice(sorted(h)) if rng.random() < 0.2 else n
            ok, caps = m.match(objs[tgt])
            cv = {}
            fine = True
            for nm, v in dict(caps).items():
                av = value_of_capture(W, S, v)
                if av is None:
                    # a property value: find the field it came from through the pattern? log pool/atom by search
                    av = atom_of(W, h, tgt, v)
                cv[nm] = av
            lines.append({"h": h, "n": tgt, "op": "match", "p": p, "text": text, "ok": bool(ok), "caps": cv})
    return lines


def atom_of(W, h, n, v):
    """abstract a captured property value: search the pools (the capture may come from a nested node)"""
    for pl, vals in P.POOLSETS[W.poolset].items():
        if pl.startswith(("r_", "sep", "any")):
            continue
        for a, x in enumerate(vals[:3]):
            if type(x) is type(v) and x == v:
                return {"k": "atom", "pool": pl, "a": a, "amb": True}
    if v == 7:
        return {"k": "atom", "pool": "fixed7", "a": 0}
    return {"k": "atom", "pool": "?", "a": 99}


def trace_validate(chk, lines, name="trace"):
    f = chk.wd / f"{name}.ndjson"
    with open(f, "w") as fh:
        for ln in lines:
            fh.write(json.dumps(ln) + "\n")
    cfg = "INIT Init\nNEXT Next\nPOSTCONDITION Done\nCHECK_DEADLOCK FALSE\n"
    r = tlc.run(chk.wd, "Trace_Pattern", cfg, workers=1, timeout=3000, env={"TRACE_FILE": str(f)})
    chk.note_tlc(f"Trace_Pattern/{name}", r, "trace-validation")
    return sorted(tlc.rejected(r, len(lines), "Trace_Pattern"))


def run(chk: core.Check):
    quick = chk.tier == "quick"
    chk.rule = ("Gen: for the newest node of every heap of <= N objects (TLC, exhaustive) the exact pattern and its "
                "single-point variations (class alternatives; per field: any, regex exact / prefix / not-at-start / '.', "
                "None, [], nested, sequences shorter / longer / with tail at every cut, captured tails and sequences, "
                "variables), expected verdict and captures from Pattern!Match; rule lists for MultiPatternMatcher in "
                "several orders. Each pattern is rendered with three whitespace styles, compiled before any matching, "
                "matched fresh / cached / recompiled / through MultiPatternMatcher; captures compared with `is`. "
                "Non-trivial: matching patterns with at least one field. Trace: random patterns (depth <= 3) written "
                "against random nodes, validated by Trace_Pattern.tla.")
    allraw = []
    for prof, (_, _, nq, nt, mtq, mtt) in PROFILES.items():
        raw = gen_cases(chk, prof, nq if quick else nt, thorough=not quick)
        chk.bounds[prof] = {"MaxObjs": nq if quick else nt, "MaxTuple": mtq if quick else mtt, "classes": PROFILES[prof][0]}
        allraw.extend(raw)
    if allraw:
        c = tlc.decode(allraw[len(allraw) // 2])
        chk.sample({"heap": c["h"], "root": c["root"], "pattern": c["pats"][len(c["pats"]) // 2]})
    for viol, n, nontriv in core.parallel(_replay, allraw, {}, chunk=20):
        chk.evaluations += n
        chk.nontrivial |= nontriv
        for clause, detail, case in viol:
            chk.add(core.Violation(clause, case, detail))
    chk.replayed += len(allraw)
    # the same generator over the pool set `ws`, whose strings differ only in the length of a run of blanks: the exact
    # regex and its stretched twin (Gen_Pattern!Stretch) are compiled in one process and must keep their own verdicts
    wsd = chk.wd / "ws"
    wsd.mkdir(exist_ok=True)
    tlc.prepare(wsd, {"Zoo.tla": zoo.render_tla(zoo.BASIC, poolset="ws")})
    wsn = PROFILES["props"][2 if quick else 3]
    wsraw = gen_cases(chk, "props", wsn, thorough=not quick, wd=wsd, tag="/ws")
    chk.bounds["props/ws"] = {"MaxObjs": wsn, "MaxTuple": 1, "classes": PROFILES["props"][0], "poolset": "ws"}
    nstretch = 0
    for raw in wsraw:
        c = tlc.decode(raw)
        nstretch += sum(1 for pc in c["pats"] for fl in pc["p"]["fields"]
                        if fl["spec"]["t"] == "re" and fl["spec"]["toks"].count(" ") >= 4)
    if wsraw and not nstretch:
        raise tlc.MachineryError("Gen_Pattern over the pool set ws produced no stretched regex")
    chk.bounds["props/ws"]["stretched_regexes"] = nstretch
    for viol, n, nontriv in core.parallel(_replay, wsraw, {"poolset": "ws"}, chunk=20):
        chk.evaluations += n
        chk.nontrivial |= nontriv
        for clause, detail, case in viol:
            chk.add(core.Violation(clause, case, detail))
    chk.replayed += len(wsraw)
    chk.exhaustive = True
    rng = random.Random(chk.seed + 3)
    seeds = [rng.randrange(1 << 30) for _ in range(150 if quick else 1500)]
    lines = []
    for ls in core.parallel(_record, seeds, {"maxobj": 14 if quick else 25, "pats": 12}):
        lines.extend(ls)
    judged = []
    for ln in lines:
        if ln["ok"] == "rejected":
            chk.add(core.Violation("trace-compile", {"m": "pattern-trace", **ln}, f"grammatical pattern {ln['text']!r} rejected: {ln['msg']}"))
        else:
            judged.append(ln)
    rej = trace_validate(chk, judged)
    core.canary(chk, judged, trace_validate, what="Trace_Pattern", skip=set(rej))
    chk.traces_accepted += len(judged) - len(rej)
    chk.evaluations += len(judged)
    for i in rej[:25]:
        ln = judged[i - 1]
        chk.add(core.Violation("trace-match", {"m": "pattern-trace", **ln},
                               f"{ln['text']!r} on {ln['n']}: ok={ln['ok']} caps={ln['caps']} is not what Pattern.tla prescribes"))
    if judged:
        chk.sample({"recorded": {k: v for k, v in judged[len(judged) // 2].items() if k != "h"}})


def replay(chk, data):
    core.use_repo()
    case = data["case"]
    W = World(zoo.BASIC, case.get("poolset", "plain"))
    if case["m"] == "pattern":
        for clause, detail, c in check_case(W, case):
            chk.add(core.Violation(clause, c, detail))
        return
    from pyoak.match import pattern as PT
    objs = W.build(case["h"])
    S = Slots(objs)
    m, msg = PT.NodeMatcher.from_pattern(case["text"])
    if m is None:
        chk.add(core.Violation(data["clause"], case, "still rejected: " + msg))
        return
    ok, caps = m.match(objs[case["n"]])
    cv = {nm: (value_of_capture(W, S, v) or atom_of(W, case["h"], case["n"], v)) for nm, v in dict(caps).items()}
    ln = {k: v for k, v in case.items() if k != "m"}
    ln.update(ok=bool(ok), caps=cv)
    if trace_validate(chk, [ln], "replay"):
        chk.add(core.Violation(data["clause"], case, "still rejected by Trace_Pattern"))
