"""C15 Origin algebra: interval laws, hull merging, flat multi-origins, exact slices."""
from __future__ import annotations

import json
import random
import shutil
import subprocess
import time
from pathlib import Path

from .. import core, inst, tlc

PID = "C15"
ATOMS = ["@tla:No", "@tla:Code(1, 0, 2)", "@tla:Code(1, 2, 4)", "@tla:Code(1, 3, 5)", "@tla:Code(2, 0, 2)",
         "@tla:Gen(1)", "@tla:Xml(3, 1)", "@tla:Gen(2)"]
TEXTS = {1: "abcdef", 2: "uvwxyz"}


class Conc:
    """concretization of sources / origin terms"""

    def __init__(self):
        from pyoak.origin import FileSource, MemoryTextSource
        self.src = {1: MemoryTextSource(TEXTS[1], source_uri="m1"), 2: MemoryTextSource(TEXTS[2], source_uri="m2"),
                    3: FileSource(Path("dir/f.xml"))}

    def rng(self, r):
        from pyoak.origin import get_code_range
        return get_code_range(r["s"], 1, r["s"], r["e"], 1, r["e"])

    def origin(self, t):
        from pyoak.origin import NO_ORIGIN, CodeOrigin, GeneratedCodeOrigin, MultiOrigin, XMLFileOrigin, XMLPath
        k = t["k"]
        if k == "no":
            return NO_ORIGIN
        if k == "code":
            return CodeOrigin(self.src[t["src"]], self.rng(t))
        if k == "gen":
            return GeneratedCodeOrigin(self.src[t["src"]])
        if k == "xml":
            return XMLFileOrigin(self.src[t["src"]], XMLPath(f"/p{t['path']}"))
        return MultiOrigin([self.origin(m) for m in t["ms"]])

    def srcid(self, s):
        from pyoak.origin import NO_SOURCE
        if s is NO_SOURCE:
            return 0
        for i, x in self.src.items():
            if x == s:
                return i
        return 99

    def abstract(self, o):
        from pyoak.origin import NO_ORIGIN, CodeOrigin, GeneratedCodeOrigin, MultiOrigin, NoOrigin, XMLFileOrigin
        if o is NO_ORIGIN:
            return {"k": "no"}
        if isinstance(o, NoOrigin):
            return {"k": "no-but-not-the-singleton"}
        if type(o) is GeneratedCodeOrigin:
            return {"k": "gen", "src": self.srcid(o.source)}
        if type(o) is CodeOrigin:
            return {"k": "code", "src": self.srcid(o.source), "s": o.position.start.index, "e": o.position.end.index}
        if type(o) is XMLFileOrigin:
            return {"k": "xml", "src": self.srcid(o.source), "path": int(o.position.xpath[2:])}
        if type(o) is MultiOrigin:
            return {"k": "multi", "ms": [self.abstract(m) for m in o.origins]}
        return {"k": "?" + type(o).__name__}

    def source_ids(self, o):
        from pyoak.origin import SourceSet
        s = o.source
        if isinstance(s, SourceSet):
            return [self.srcid(x) for x in s.sources]
        return [self.srcid(s)]

    # expected fqn text from a term (punctuation as documented in origin.py, membership / order from the spec)
    def fqn(self, t):
        k = t["k"]
        if k == "no":
            return "NoOrigin"
        if k == "multi":
            ids = [m["src"] for m in t["ms"]]
            sfq = self.src[ids[0]].fqn if len(set(ids)) == 1 else "SourceSet(" + "||".join(self.src[i].fqn for i in ids) + ")"
            return sfq + "::PositionSet(" + "||".join(self.posfqn(m) for m in t["ms"]) + ")"
        return self.src[t["src"]].fqn + "::" + self.posfqn(t)

    def posfqn(self, t):
        if t["k"] == "code":
            return f"{t['s']}-{t['e']}"
        if t["k"] == "gen":
            return "0-0"
        return f"/p{t['path']}"


def gen_cases(chk, grid, maxops, kinds, name):
    mod, cfg = inst.instance("I_Origin", "Gen_Origin",
                             dict(Grid=set(range(grid)), Atoms=ATOMS, MaxOps=maxops, MaxText=6, Kinds=set(kinds)),
                             invariants=["EmitInv", "Laws"])
    (chk.wd / "I_Origin.tla").write_text(mod)
    r = tlc.run(chk.wd, "I_Origin", cfg, workers=core.NPROC, timeout=3000)
    tlc.require_clean(r, "Gen_Origin")
    chk.note_tlc(f"Gen_Origin/{name}", r, "mc+gen")
    if r.violated:
        chk.tlc_violation("Gen_Origin-" + name, r)
    return r.json_raw


def raises(fn, exc=ValueError):
    try:
        fn()
    except exc:
        return True
    return False


def check_case(C: Conc, case) -> list:
    from pyoak.origin import CodeOrigin, CodePoint, CodeRange, MemoryTextSource, concat_origins, merge_origins
    out = []
    c, exp = case["c"], case["exp"]

    def bad(clause, detail):
        out.append((clause, detail, {"m": "origin", "c": c, "exp": exp}))
    kind = c["kind"]
    if kind == "range2":
        a, b = C.rng(c["a"]), C.rng(c["b"])
        if (b in a) != exp["contains"]:
            bad("contains", f"{c['b']} in {c['a']} -> {b in a}, expected {exp['contains']}")
        if a.overlaps(b) != exp["overlaps"]:
            bad("overlaps", f"{c['a']}.overlaps({c['b']}) -> {a.overlaps(b)}")
        if (a < b) != exp["lt"] or (a <= b) != exp["le"]:
            bad("lt/le", f"{c['a']} < {c['b']} -> {a < b}, <= -> {a <= b}; expected {exp['lt']}, {exp['le']}")
        hl = a + b
        if [hl.start.index, hl.end.index] != [exp["hull"]["s"], exp["hull"]["e"]]:
            bad("hull", f"{c['a']} + {c['b']} -> {hl.start.index}-{hl.end.index}, expected {exp['hull']}")
        if (a.start < b.start) != (c["a"]["s"] < c["b"]["s"]) or (a.start <= b.start) != (c["a"]["s"] <= c["b"]["s"]):
            bad("point-order", f"{c['a']['s']} vs {c['b']['s']}")
    elif kind == "range3":
        hl = (C.rng(c["a"]) + C.rng(c["b"])) + C.rng(c["c"])
        h2 = C.rng(c["a"]) + (C.rng(c["b"]) + C.rng(c["c"]))
        for x in (hl, h2):
            if [x.start.index, x.end.index] != [exp["hull"]["s"], exp["hull"]["e"]]:
                bad("hull-assoc", f"{c}: {x.start.index}-{x.end.index}, expected {exp['hull']}")
    elif kind == "point":
        r = raises(lambda: CodePoint(index=c["idx"], line=c["line"], column=c["col"]))
        if r == exp["ok"]:
            bad("point-wellformed", f"CodePoint({c['idx']},{c['line']},{c['col']}) {'raised' if r else 'accepted'}, expected {'accepted' if exp['ok'] else 'ValueError'}")
    elif kind == "rangector":
        r = raises(lambda: CodeRange(start=CodePoint(c["s"], 1, c["s"]), end=CodePoint(c["e"], 1, c["e"])))
        if r == exp["ok"]:
            bad("range-wellformed", f"CodeRange({c['s']},{c['e']}) {'raised' if r else 'accepted'}")
    elif kind == "ops":
        os_ = [C.origin(json.loads(json.dumps(ATOM_TERMS[i - 1]))) for i in c["t"]]
        for op, fn, ek, sk in (("merge", lambda: merge_origins(*os_), "merge", "msrc"),
                               ("concat", lambda: concat_origins(*os_), "concat", "csrc")):
            res = fn()
            got = C.abstract(res)
            if got != exp[ek]:
                bad(op, f"{op}{c['t']} -> {got}, expected {exp[ek]}")
                continue
            if C.source_ids(res) != list(exp[sk]):
                bad(op + "-source", f"{op}{c['t']}: sources {C.source_ids(res)}, expected {exp[sk]}")
            if res.fqn != C.fqn(exp[ek]):
                bad(op + "-fqn", f"{op}{c['t']}: fqn {res.fqn!r}, expected {C.fqn(exp[ek])!r}")
            if got["k"] == "code" and res.get_raw() != TEXTS[got["src"]][got["s"]:got["e"]]:
                bad(op + "-raw", f"{op}{c['t']}: get_raw {res.get_raw()!r}")
        if len(os_) == 2:
            got = C.abstract(os_[0] + os_[1])
            if got != exp["add"]:
                bad("add", f"{c['t']}: a + b -> {got}, expected {exp['add']}")
        if len(os_) == 3:
            g1 = C.abstract(merge_origins(os_[0], os_[1]) + os_[2])
            g2 = C.abstract(os_[0] + merge_origins(os_[1], os_[2]))
            if [g1, g2] != list(exp["addm"]):
                bad("add-multi", f"{c['t']}: {[g1, g2]}, expected {exp['addm']}")
    elif kind == "slice":
        text = "abcdef"[: c["n"]]
        o = CodeOrigin(MemoryTextSource(text, source_uri=f"t{c['n']}"), C.rng(c["r"]))
        want = "".join("abcdef"[j - 1] for j in exp["raw"])
        if o.get_raw() != want:
            bad("get_raw", f"text {text!r} range {c['r']}: {o.get_raw()!r}, expected {want!r}")
    return out


ATOM_TERMS = [{"k": "no"}, {"k": "code", "src": 1, "s": 0, "e": 2}, {"k": "code", "src": 1, "s": 2, "e": 4},
              {"k": "code", "src": 1, "s": 3, "e": 5}, {"k": "code", "src": 2, "s": 0, "e": 2}, {"k": "gen", "src": 1},
              {"k": "xml", "src": 3, "path": 1}, {"k": "gen", "src": 2}]


def _replay(chunk, arg):
    core.use_repo()
    C = Conc()
    viol, n, nontriv = [], 0, set()
    for raw in chunk:
        case = tlc.decode(raw)
        viol.extend(core.safe(check_case, case, C, case))
        n += 1
        c = case["c"]
        if c["kind"] == "ops" and len(c["t"]) >= 2 or c["kind"] in ("range2", "range3"):
            nontriv.add(hash(raw))
    return viol, n, nontriv


def _record(chunk, arg):
    from pyoak.origin import concat_origins, get_code_range, merge_origins
    core.use_repo()
    C = Conc()
    lines = []
    for seed in chunk:
        rng = random.Random(seed)
        for _ in range(arg["n"]):
            def rr():
                s = rng.choice([rng.randrange(10), rng.randrange(10 ** 6), rng.randrange(2 ** 30)])
                e = s + rng.choice([0, 1, rng.randrange(100), rng.randrange(10 ** 6)])
                return {"s": s, "e": e}
            a, b = rr(), rr()
            if rng.random() < 0.3:
                b = {"s": a["e"], "e": a["e"] + rng.randrange(5)}
            A, B = C.rng(a), C.rng(b)
            h = A + B
            lines.append({"op": "range2", "a": a, "b": b, "contains": B in A, "overlaps": A.overlaps(B), "lt": A < B, "le": A <= B,
                          "hull": {"s": h.start.index, "e": h.end.index}})
            terms = []
            for _ in range(rng.randrange(1, 7)):
                k = rng.random()
                if k < 0.15:
                    terms.append({"k": "no"})
                elif k < 0.65:
                    s = rng.randrange(6)
                    terms.append({"k": "code", "src": rng.choice([1, 1, 2]), "s": s, "e": s + rng.randrange(4)})
                elif k < 0.8:
                    terms.append({"k": "gen", "src": rng.choice([1, 2])})
                else:
                    terms.append({"k": "xml", "src": 3, "path": rng.randrange(3)})
            os_ = [C.origin(t) for t in terms]
            m = merge_origins(*os_)
            lines.append({"op": "merge", "os": terms, "obs": C.abstract(m), "src": C.source_ids(m)})
            cc = concat_origins(*os_)
            lines.append({"op": "concat", "os": terms, "obs": C.abstract(cc), "src": C.source_ids(cc)})
    return lines


def trace_validate(chk, lines, name="trace"):
    f = chk.wd / f"{name}.ndjson"
    with open(f, "w") as fh:
        for ln in lines:
            fh.write(json.dumps(ln) + "\n")
    cfg = "INIT Init\nNEXT Next\nPOSTCONDITION Done\nCHECK_DEADLOCK FALSE\n"
    r = tlc.run(chk.wd, "Trace_Origin", cfg, workers=1, timeout=3000, env={"TRACE_FILE": str(f)})
    chk.note_tlc(f"Trace_Origin/{name}", r, "trace-validation")
    return sorted(tlc.rejected(r, len(lines), "Trace_Origin"))


def run_tlaps(chk) -> dict:
    """Prove the interval laws for all naturals (OriginProofs.tla)."""
    d = chk.wd / "tlaps"
    d.mkdir(exist_ok=True)
    shutil.copy(tlc.SPEC / "OriginProofs.tla", d / "OriginProofs.tla")
    t0 = time.time()
    p = subprocess.run(["tlapm", "--toolbox", "0", "0", "OriginProofs.tla"], cwd=d, capture_output=True, text=True, timeout=900)
    out = p.stdout + p.stderr
    proved = out.count("@!!status:proved")
    failed = out.count("@!!status:failed")
    import re
    m = re.search(r"All (\d+) obligations? proved", out)
    total = int(m.group(1)) if m else proved + failed
    return {"obligations": total, "discharged": proved if m is None else total, "failed": failed,
            "wall_s": round(time.time() - t0, 1), "all_proved": m is not None,
            "checker_cmd": "tlapm --toolbox 0 0 spec/OriginProofs.tla", "tail": out[-400:]}


def run(chk: core.Check):
    quick = chk.tier == "quick"
    chk.rule = ("Proof: the interval laws for all naturals (TLAPS, OriginProofs.tla). Gen (exhaustive): all pairs and "
                "triples of the 21 ranges on indices 0..5, all point / range constructions on a grid incl. ill-formed "
                "ones, every tuple of up to 4 (quick) / 5 (thorough) of 8 origin atoms over 3 sources for merge / concat "
                "/ + (with multi-origin operands as produced by merge), get_raw for every range over texts of length <= 6; "
                "expected values from Origin.tla. Non-trivial: range pairs / triples and operand tuples of length >= 2. "
                "Trace: ranges on indices up to 2^30 and random operand tuples of up to 6 origins, validated by Trace_Origin.tla.")
    pr = run_tlaps(chk)
    chk.notes["tlaps"] = pr
    if not pr["all_proved"]:
        raise tlc.MachineryError("TLAPS did not prove OriginProofs.tla:\n" + pr["tail"])
    raw = gen_cases(chk, 6, 4 if quick else 5, ["range2", "range3", "point", "rangector", "ops", "slice"], "grid")
    chk.bounds = {"grid": "0..5", "atoms": 8, "max_operands": 4 if quick else 5, "max_text": 6}
    chk.sample(tlc.decode(raw[len(raw) // 2]))
    for viol, n, nontriv in core.parallel(_replay, raw, {}, chunk=300):
        chk.evaluations += n
        chk.nontrivial |= nontriv
        for clause, detail, case in viol:
            chk.add(core.Violation(clause, case, detail))
    chk.replayed += len(raw)
    chk.exhaustive = True
    rng = random.Random(chk.seed + 21)
    lines = []
    for ls in core.parallel(_record, [rng.randrange(1 << 30) for _ in range(32 if quick else 320)], {"n": 40}):
        lines.extend(ls)
    rej = trace_validate(chk, lines)
    core.canary(chk, lines, trace_validate, what="Trace_Origin", skip=set(rej))
    chk.traces_accepted += len(lines) - len(rej)
    chk.evaluations += len(lines)
    for i in rej[:25]:
        ln = lines[i - 1]
        chk.add(core.Violation("trace-" + ln["op"], {"m": "origin-trace", **ln}, f"recorded {ln['op']} contradicts Origin.tla: {json.dumps(ln)[:300]}"))
    chk.sample({"recorded": lines[1]})


def replay(chk, data):
    core.use_repo()
    case = data["case"]
    C = Conc()
    if case["m"] == "origin":
        for clause, detail, c in check_case(C, case):
            chk.add(core.Violation(clause, c, detail))
        return
    from pyoak.origin import concat_origins, merge_origins
    ln = {k: v for k, v in case.items() if k != "m"}
    if ln["op"] in ("merge", "concat"):
        os_ = [C.origin(t) for t in ln["os"]]
        res = merge_origins(*os_) if ln["op"] == "merge" else concat_origins(*os_)
        ln["obs"], ln["src"] = C.abstract(res), C.source_ids(res)
    else:
        A, B = C.rng(ln["a"]), C.rng(ln["b"])
        h = A + B
        ln.update(contains=B in A, overlaps=A.overlaps(B), lt=A < B, le=A <= B, hull={"s": h.start.index, "e": h.end.index})
    if trace_validate(chk, [ln], "replay"):
        chk.add(core.Violation(data["clause"], case, "still rejected by Trace_Origin"))
