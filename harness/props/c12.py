"""C12 Child and property accessors return exactly what the class definition dictates."""
from __future__ import annotations

import dataclasses
import itertools
import json
import random
import sys
import types

from .. import core, inst, tlc

PID = "C12"


def F(n, kind, init=True, cmp=True, kw=False):
    return {"n": n, "kind": kind, "init": init, "cmp": cmp}


# declaration (menu) order differs from name order; "pv" re-declares p with other flags (an override when the base has p)
MENU = [F("z", "tuple"), F("p", "prop"), F("m", "opt"), F("q", "prop", True, False), F("k", "one"),
        F("r", "prop", False, True), F("s", "prop", False, False), F("b", "prop"), F("p", "prop", True, False),
        F("a", "tuple")]
NAMES = sorted({f["n"] for f in MENU} | {"id", "content_id", "origin"})
ACCS = ["get_properties", "get_child_nodes", "get_child_nodes_with_field", "iter_child_fields"]

HELPERS = '''
from __future__ import annotations
from dataclasses import dataclass, field
from pyoak.node import ASTNode

@dataclass(frozen=True)
class GLeaf(ASTNode):
    v: int = 0

@dataclass(frozen=True)
class GFalsy(GLeaf):
    def __len__(self):
        return 0
'''
_helpers = None
_counter = itertools.count()


def helpers():
    global _helpers
    if _helpers is None:
        m = types.ModuleType("verif_c12_helpers")
        m.__file__ = "<verif_c12_helpers>"
        sys.modules[m.__name__] = m
        exec(compile(HELPERS, m.__file__, "exec"), m.__dict__)
        _helpers = m
    return _helpers


def render_field(f):
    n, kind = f["n"], f["kind"]
    if kind == "prop":
        args = [f"default={'%r' % ('v' + n)}"]
        if not f["cmp"]:
            args.append("compare=False")
        if not f["init"]:
            args.append("init=False")
        return f"    {n}: str = field({', '.join(args)})"
    if kind == "one":
        return f"    {n}: GLeaf = field(kw_only=True)"
    if kind == "opt":
        return f"    {n}: GLeaf | None = None"
    return f"    {n}: tuple[GLeaf, ...] = ()"


def build_classes(classes: list) -> dict:
    """fresh module with uniquely named classes -> {abstract class name: real class}"""
    tag = next(_counter)
    pid = id(classes) % 1000
    modname = f"verif_c12_gen_{tag}"
    real = {c["c"]: f"{c['c']}x{tag}" for c in classes}
    src = ["from __future__ import annotations", "from dataclasses import dataclass, field", "from pyoak.node import ASTNode",
           "from verif_c12_helpers import GLeaf, GFalsy", ""]
    for c in classes:
        base = "ASTNode" if c["base"] == "ASTNode" else real[c["base"]]
        src.append("@dataclass(frozen=True)")
        src.append(f"class {real[c['c']]}({base}):")
        fs = c["fields"] if c["fields"] != [] else []
        src += [render_field(f) for f in fs] or ["    pass"]
        src.append("")
    helpers()
    m = types.ModuleType(modname)
    m.__file__ = f"<{modname}>"
    sys.modules[modname] = m
    try:
        exec(compile("\n".join(src), m.__file__, "exec"), m.__dict__)
    finally:
        pass
    return {c["c"]: getattr(m, real[c["c"]]) for c in classes}, "\n".join(src), modname


def flags_kw(fl):
    return dict(skip_id=fl["id"], skip_origin=fl["origin"], skip_content_id=fl["content_id"],
                skip_non_compare=fl["non_compare"], skip_non_init=fl["non_init"])


def check_case(case: dict) -> list:
    out = []
    Hm = helpers()
    classes = case["classes"]
    try:
        real, src, modname = build_classes(classes)
    except Exception as ex:
        return [("class-definition", f"{type(ex).__name__}: {ex}", {"m": "accessors", "classes": [dict(c, props=[], prop_fields=[], insts=[]) for c in classes], "uses": case["uses"], "order": case["order"]})]
    n1, n2, f1 = Hm.GLeaf(1), Hm.GLeaf(2), Hm.GFalsy(3)
    pool = {"n1": n1, "n2": n2, "f1": f1}

    def name_of(o):
        for k, v in pool.items():
            if v is o:
                return k
        return "none" if o is None else "?"

    def absval(v):
        return [name_of(x) for x in v] if isinstance(v, tuple) else name_of(v)

    def mk(cname, k):
        kw = {}
        for fn, v in (k.items() if k != [] else []):
            kw[fn] = tuple(pool[x] for x in v) if isinstance(v, list) else (None if v == "none" else pool[v])
        return real[cname](**kw)

    def bad(clause, detail, c):
        out.append((clause, detail, {"m": "accessors", "order": case["order"], "uses": case["uses"],
                                     "classes": [x if x["c"] == c["c"] else dict(x, props=[], prop_fields=[], insts=[]) for x in classes],
                                     "source": src}))

    # first uses, in the order the spec chose
    first = {}
    for c in classes:
        ks = c["insts"][0]["k"] if c["insts"] else {}
        first[c["c"]] = mk(c["c"], ks)
    for cname, acc in case["uses"]:
        i = first[cname]
        list(getattr(i, acc)())
    for c in classes:
        cls = real[c["c"]]
        got = [f.name for f in dataclasses.fields(cls)]
        if got != list(c["allfields"]):
            bad("dataclass-field-order", f"{c['c']}: {got} expected {c['allfields']}", c)
        got = [f.name for f in cls.get_child_fields()]
        if got != list(c["child_fields"]):
            bad("get_child_fields", f"{c['c']}: {got} expected {c['child_fields']}", c)
        i0 = first[c["c"]]
        for pc in c["props"]:
            res = list(i0.get_properties(**flags_kw(pc["fl"]), sort_keys=pc["sorted"]))
            got = [f.name for _, f in res]
            if got != list(pc["res"]):
                bad("get_properties", f"{c['c']} flags={pc['fl']} sort_keys={pc['sorted']}: {got} expected {pc['res']}", dict(c, props=[pc], prop_fields=[], insts=[]))
            elif any(v is not getattr(i0, f.name) for v, f in res):
                bad("get_properties-values", f"{c['c']}: a yielded value is not the field's value", dict(c, props=[pc], prop_fields=[], insts=[]))
        for pc in c["prop_fields"]:
            got = [f.name for f in cls.get_property_fields(**flags_kw(pc["fl"]))]
            if got != list(pc["res"]):
                bad("get_property_fields", f"{c['c']} flags={pc['fl']}: {got} expected {pc['res']}", dict(c, props=[], prop_fields=[pc], insts=[]))
        d = i0.to_properties_dict()
        if list(d) != list(c["propdict"]) or any(d[k] is not getattr(i0, k) for k in d):
            bad("to_properties_dict", f"{c['c']}: {list(d)} expected {c['propdict']}", c)
        for ic in c["insts"]:
            i = mk(c["c"], ic["k"])
            sub = dict(c, props=[], prop_fields=[], insts=[ic])
            for key, sk in (("cn", False), ("cns", True)):
                got = [name_of(x) for x in i.get_child_nodes(sort_keys=sk)]
                if got != list(ic[key]):
                    bad("get_child_nodes", f"{c['c']} {ic['k']} sort_keys={sk}: {got} expected {ic[key]}", sub)
            if [name_of(x) for x in i.children] != list(ic["cn"]):
                bad("children", f"{c['c']} {ic['k']}: {[name_of(x) for x in i.children]} expected {ic['cn']}", sub)
            for key, sk in (("cwf", False), ("cwfs", True)):
                got = [[name_of(x), f.name, -1 if ix is None else ix] for x, f, ix in i.get_child_nodes_with_field(sort_keys=sk)]
                if got != [list(x) for x in ic[key]]:
                    bad("get_child_nodes_with_field", f"{c['c']} {ic['k']} sort_keys={sk}: {got} expected {ic[key]}", sub)
            for key, sk in (("icf", False), ("icfs", True)):
                res = list(i.iter_child_fields(sort_keys=sk))
                got = [[absval(v), f.name] for v, f in res]
                if got != [list(x) for x in ic[key]] or any(v is not getattr(i, f.name) for v, f in res):
                    bad("iter_child_fields", f"{c['c']} {ic['k']} sort_keys={sk}: {got} expected {ic[key]}", sub)
    sys.modules.pop(modname, None)
    return out


FIXED = {
    "GA": {"base": "ASTNode", "fields": [MENU[0], MENU[1], MENU[3], MENU[5]]},          # z, p, q, r
    "GB": {"base": "GA", "fields": [MENU[8], MENU[2], MENU[6]]},                        # p re-declared non-comparable, m, s
    "GC": {"base": "GB", "fields": [MENU[4], MENU[9], MENU[7]]},                        # k, a, b
}


def gen(chk, nclasses, maxfields, maxuses, mode, bases="chain", name=""):
    fixed = mode == "orders"
    mod, cfg = inst.instance(
        "I_Accessors", "Gen_Accessors",
        dict(NameOrder=NAMES, Menu=MENU, NClasses=nclasses, MaxFields=maxfields, MaxUses=maxuses, AccNames=set(ACCS), Bases=bases,
             FixedH=FIXED if fixed else [], FixedOrder=["GA", "GB", "GC"] if fixed else []),
        invariants=["EmitTable" if mode == "table" else "EmitOrders", "Partition", "SortedIsPermutation"])
    (chk.wd / "I_Accessors.tla").write_text(mod)
    r = tlc.run(chk.wd, "I_Accessors", cfg, workers=core.NPROC, timeout=3000, heap="8g")
    tlc.require_clean(r, "Gen_Accessors")
    chk.note_tlc(f"Gen_Accessors/{name or mode}/classes={nclasses}/fields<={maxfields}/uses={maxuses}", r, "mc+gen")
    if r.violated:
        chk.tlc_violation("Gen_Accessors-" + mode, r)
    return r.json_raw


def _replay(chunk, arg):
    core.use_repo()
    viol, n, nontriv = [], 0, set()
    for raw in chunk:
        case = tlc.decode(raw)
        viol.extend(core.safe(check_case, {"m": "accessors", "order": case["order"], "uses": case["uses"], "classes": [dict(c, props=[], prop_fields=[], insts=[]) for c in case["classes"]]}, case))
        for c in case["classes"]:
            n += len(c["props"]) + len(c["prop_fields"]) + 6 * len(c["insts"]) + 3
        if len(case["classes"]) > 1 or case["uses"]:
            nontriv.add(hash(raw))
    return viol, n, nontriv


def run(chk: core.Check):
    quick = chk.tier == "quick"
    chk.rule = ("Gen (TLC): every class hierarchy of N classes (chain / any earlier base) whose classes each declare a "
                "subset of <= K fields of a ten-entry menu (variadic tuples, optional and required children, plain / "
                "non-comparable / non-init / both / re-declared properties; menu order differs from name order), with the "
                "expected result of every accessor from Accessors.tla: get_properties and get_property_fields for all 32 "
                "flag combinations (x sort_keys), get_child_fields, to_properties_dict, and for every instance (absent "
                "optionals, empty tuples, falsy children) get_child_nodes, get_child_nodes_with_field, iter_child_fields, "
                "children, plain and sorted. Each hierarchy is created in a fresh module. A second family permutes the "
                "order of first use of the four generated accessors among the classes of a three-level hierarchy. "
                "Non-trivial: hierarchies with inheritance or a prescribed first-use order.")
    raws = []
    raws += gen(chk, 2, 2, 0, "table", name="table-2x2")
    if quick:
        raws += gen(chk, 3, 1, 3, "orders", name="orders-3x1")
    else:
        raws += gen(chk, 2, 3, 0, "table", bases="chain", name="table-2x3")
        raws += gen(chk, 3, 1, 0, "table", bases="any", name="table-3x1-any")
        raws += gen(chk, 3, 1, 4, "orders", name="orders-3x1")
    chk.bounds = {"menu": [f"{f['n']}:{f['kind']}:init={f['init']}:cmp={f['cmp']}" for f in MENU]}
    c = tlc.decode(raws[len(raws) // 3])
    chk.sample({"order": c["order"], "uses": c["uses"], "classes": [{k: v for k, v in x.items() if k in ("c", "base", "fields", "allfields")} for x in c["classes"]]})
    for viol, n, nontriv in core.parallel(_replay, raws, {}, chunk=25):
        chk.evaluations += n
        chk.nontrivial |= nontriv
        for clause, detail, case in viol:
            chk.add(core.Violation(clause, case, detail))
    chk.replayed += len(raws)
    chk.exhaustive = True


def replay(chk, data):
    core.use_repo()
    for clause, detail, c in check_case(data["case"]):
        chk.add(core.Violation(clause, c, detail))
