"""C17 XPath and pattern text is either compiled or rejected with the definition error."""
from __future__ import annotations

import json
import random

from .. import core, inst, tlc, zoo
from ..heap import Slots, World

PID = "C17"

TEST_HEAP = {
    "s1": {"c": "Leaf", "p": {"a": 0, "b": 0}, "k": {}, "o": 0},
    "s2": {"c": "Leaf", "p": {"a": 1, "b": 0}, "k": {}, "o": 0},
    "s3": {"c": "Unary", "p": {}, "k": {"child": "s2"}, "o": 0},
    "s4": {"c": "Leaf", "p": {"a": 2, "b": 0}, "k": {}, "o": 0},
    "s5": {"c": "Many", "p": {"ninit": 0}, "k": {"items": ["s4"], "head": "none"}, "o": 0},
    "s6": {"c": "Many", "p": {"ninit": 0}, "k": {"items": ["s1", "s3", "s5"], "head": "none"}, "o": 0},
}
NODECLASSES = {"Leaf", "Unary", "Many", "ASTNode"}
KEYS = {"x", "y", "xy", "items"}      # `x y` and `xy` differ only by white space between two words
BADRE = {"("}


def gen_cases(chk, lang, maxtok, mutmax):
    mod, cfg = inst.instance(
        "I_Syntax", "Gen_Syntax",
        dict(Lang=lang, MaxTok=maxtok, MutMax=mutmax, ClassNames={"Leaf", "Nope", "CodePoint"},
             FieldNames={"items"}, Digs={1, 2}, StrNames={"ab", "a b", "("}, NodeClasses=set(NODECLASSES), BadRegex=set(BADRE),
             KeyNames=set(KEYS), TestHeap=TEST_HEAP, TestRoot="s6", SplitNames={("xy", "x", "y")} if lang == "pattern" else set()),
        invariants=["EmitInv", "GenInRec"])
    (chk.wd / "I_Syntax.tla").write_text(mod)
    r = tlc.run(chk.wd, "I_Syntax", cfg, workers=core.NPROC, timeout=3000)
    tlc.require_clean(r, f"Gen_Syntax/{lang}")
    chk.note_tlc(f"Gen_Syntax/{lang}/maxtok={maxtok}", r, "mc+gen")
    if r.violated:
        chk.tlc_violation(f"Gen_Syntax-{lang}", r)
    return r.json_raw


def tok_text(t) -> str:
    if t["k"] == "str":
        return '"' + t["v"] + '"'
    return str(t["v"])


def render(toks, spaced: bool) -> str:
    out = ""
    prev = None
    for t in toks:
        s = tok_text(t)
        if prev is not None:
            need = (prev[-1].isalnum() or prev[-1] == "_") and (s[0].isalnum() or s[0] == "_")
            if t["k"] == "dg" and prevk == "dg":
                need = False
            if need or spaced:
                out += " "
        out += s
        prev, prevk = s, t["k"]
    return out


def try_xpath(text):
    from pyoak.match.error import ASTXpathDefinitionError
    from pyoak.match.xpath import ASTXpath
    try:
        return ASTXpath(text), None
    except ASTXpathDefinitionError:
        return None, None
    except Exception as ex:
        return None, f"{type(ex).__name__}: {ex}"


def try_pattern(text):
    """-> (verdicts of the three entry points, stray exception text | None, matcher)"""
    from pyoak.match import pattern as PT
    from pyoak.match.error import ASTPatternDefinitionError
    stray = None
    v = []
    m = None
    try:
        v.append(bool(PT.validate_pattern(text)[0]))
    except Exception as ex:
        stray = f"validate_pattern: {type(ex).__name__}: {ex}"
        v.append(None)
    try:
        m = PT.NodeMatcher.from_pattern(text)[0]
        v.append(m is not None)
    except Exception as ex:
        stray = f"from_pattern: {type(ex).__name__}: {ex}"
        v.append(None)
    try:
        PT.MultiPatternMatcher([("r", text)])
        v.append(True)
    except ASTPatternDefinitionError:
        v.append(False)
    except Exception as ex:
        stray = f"MultiPatternMatcher: {type(ex).__name__}: {ex}"
        v.append(None)
    return v, stray, m


def check_case(W, objs, S, case) -> list:
    from pyoak.match import pattern as PT
    out = []
    toks = case["toks"] if case["toks"] != [] else []
    if not toks:
        return out
    exp = case["accepted"]
    root = objs["s6"]
    nodes = list(objs.values())

    def bad(clause, detail, text):
        out.append((clause, detail, {"m": "syntax", "lang": case["lang"], "toks": toks, "accepted": exp, "text": text,
                                     "found": case.get("found", []), "mut": case.get("mut")}))
    results = []
    for spaced in (False, True):
        text = render(toks, spaced)
        if case["lang"] == "xpath":
            x, stray = try_xpath(text)
            if stray:
                bad("stray-exception", f"ASTXpath({text!r}) raised {stray}", text)
                continue
            if (x is not None) != exp:
                bad("verdict", f"ASTXpath({text!r}) {'accepted' if x is not None else 'rejected'}, expected {'accepted' if exp else 'rejected'}", text)
                continue
            if x is not None:
                got = sorted(S.of(n) for n in x.findall(root))
                x2, _ = try_xpath(text)          # cached compile
                got2 = sorted(S.of(n) for n in x2.findall(root))
                want = sorted(case.get("found", []))
                if got != want or got2 != want:
                    bad("meaning", f"{text!r}: found {got} / recompiled {got2}, expected {want}", text)
                results.append(got)
        else:
            v, stray, m = try_pattern(text)
            if stray:
                bad("stray-exception", f"{text!r}: {stray}", text)
                continue
            if len(set(v)) != 1:
                bad("entry-points-disagree", f"{text!r}: validate_pattern / from_pattern / MultiPatternMatcher = {v}", text)
                continue
            if v[0] != exp:
                bad("verdict", f"{text!r} {'accepted' if v[0] else 'rejected'}, expected {'accepted' if exp else 'rejected'}", text)
                continue
            if m is not None:
                try:
                    r1 = [(bool(ok), sorted(c)) for ok, c in (m.match(n) for n in nodes)]
                    PT._MATCHER_CACHE.pop(text, None)
                    m2 = PT.NodeMatcher.from_pattern(text)[0]
                    r2 = [(bool(ok), sorted(c)) for ok, c in (m2.match(n) for n in nodes)]
                except Exception as ex:
                    bad("stray-exception-match", f"{text!r}: match raised {type(ex).__name__}: {ex}", text)
                    continue
                if r1 != r2:
                    bad("recompile-differs", f"{text!r}", text)
                results.append(r1)
    if len(results) == 2 and results[0] != results[1]:
        bad("whitespace-changes-meaning", f"{render(toks, False)!r} vs {render(toks, True)!r}", render(toks, True))
    return out


def _replay(chunk, arg):
    core.use_repo()
    W = World(zoo.BASIC, "plain")
    objs = W.build(TEST_HEAP)
    S = Slots(objs)
    viol, n, nontriv = [], 0, set()
    for raw in chunk:
        case = tlc.decode(raw) if isinstance(raw, str) else raw
        viol.extend(core.safe(check_case, case, W, objs, S, case))
        n += 2
        if case["accepted"] or (case["mut"] and case["syntax"]):
            nontriv.add(hash(raw if isinstance(raw, str) else json.dumps(case["toks"])))
    return viol, n, nontriv


ALPH = {
    "xpath": [("sl", "/"), ("at", "@"), ("lb", "["), ("rb", "]"), ("dg", 1), ("dg", 0), ("nm", "Leaf"), ("nm", "items"), ("nm", "Nope"),
              ("nm", "CodePoint"), ("nm", "Many"), ("nm", "Late")],
    "pattern": [("lp", "("), ("rp", ")"), ("bar", "|"), ("star", "*"), ("at", "@"), ("eq", "="), ("lb", "["), ("rb", "]"),
                ("arrow", "->"), ("dollar", "$"), ("none", "None"), ("nm", "Leaf"), ("nm", "items"), ("nm", "x"), ("nm", "y"),
                ("nm", "xy"), ("nm", "Nope"), ("nm", "CodePoint"), ("nm", "Late"), ("str", "ab"), ("str", "a b"), ("str", "(")],
}


def define_late(name: str):
    """a node class that comes into existence after texts naming it were already compiled (and rejected)"""
    ns: dict = {}
    exec(f"from dataclasses import dataclass\nfrom pyoak.node import ASTNode\n@dataclass(frozen=True)\nclass {name}(ASTNode):\n    a: str = ''\n", ns)
    return ns[name]


def _record(chunk, arg):
    core.use_repo()
    World(zoo.BASIC, "plain")      # the zoo classes must exist for class names to resolve
    lines = []
    stray = []
    keep = []
    for seed in chunk:
        rng = random.Random(seed)
        late = f"Late{seed}"        # spelled `Late` in the recorded tokens; unknown in phase 1, a node class in phase 2
        cases = []
        for _ in range(arg["n"]):
            lang = rng.choice(["xpath", "pattern"])
            toks = [dict(zip(("k", "v"), rng.choice(ALPH[lang]))) for _ in range(rng.randrange(1, 9))]
            if lang == "pattern" and rng.random() < 0.7:
                toks = [{"k": "lp", "v": "("}] + toks + [{"k": "rp", "v": ")"}]
            if lang == "xpath" and rng.random() < 0.5:
                toks = [{"k": "sl", "v": "/"}] + toks
            cases.append((lang, toks, rng.random() < 0.5))
        for phase in (1, 2):
            if phase == 2:
                keep.append(define_late(late))
            for lang, toks, spaced in cases:
                if phase == 2 and not any(tk["v"] == "Late" for tk in toks):
                    continue
                text = render([dict(tk, v=late) if tk["v"] == "Late" else tk for tk in toks], spaced)
                if lang == "xpath":
                    x, s = try_xpath(text)
                    acc = x is not None
                else:
                    v, s, _ = try_pattern(text)
                    acc = v[1]
                    if s is None and len(set(v)) != 1:
                        s = f"entry points disagree: {v}"
                if s:
                    stray.append({"lang": lang, "toks": toks, "text": text, "stray": s})
                else:
                    lines.append({"lang": lang, "toks": toks, "text": text, "accepted": bool(acc), "phase": phase})
        # byte-level noise: totality only
        for _ in range(arg["n"]):
            text = "".join(rng.choice("/@[]()|*=->$\"' \tLeafitmsNonex012") for _ in range(rng.randrange(1, 14)))
            if text[0] in " \t":
                continue
            x, s = try_xpath(text)
            if s:
                stray.append({"lang": "xpath", "toks": [], "text": text, "stray": s})
            v, s, _ = try_pattern(text)
            if s or len(set(v)) != 1:
                stray.append({"lang": "pattern", "toks": [], "text": text, "stray": s or f"entry points disagree: {v}"})
    return lines, stray


def trace_validate(chk, lines, name="trace"):
    """lines of phase 1 were recorded while the class `Late` did not exist, those of phase 2 after it was defined: two
    instances of the recognizer that differ in NodeClasses"""
    p2 = [i for i, ln in enumerate(lines) if ln.get("phase") == 2]
    if p2 and len(p2) < len(lines):
        p1 = [i for i, ln in enumerate(lines) if ln.get("phase") != 2]
        a = _trace_validate(chk, [lines[i] for i in p1], name + "-before", NODECLASSES)
        b = _trace_validate(chk, [lines[i] for i in p2], name + "-after", NODECLASSES | {"Late"})
        return sorted([p1[j - 1] + 1 for j in a] + [p2[j - 1] + 1 for j in b])
    return _trace_validate(chk, lines, name, NODECLASSES | ({"Late"} if p2 else set()))


def _trace_validate(chk, lines, name, nodeclasses):
    f = chk.wd / f"{name}.ndjson"
    with open(f, "w") as fh:
        for ln in lines:
            fh.write(json.dumps(ln) + "\n")
    mod, cfg = inst.instance("I_TraceSyntax", "Trace_Syntax",
                             dict(NodeClasses=set(nodeclasses), BadRegex=set(BADRE), KeyNames=set(KEYS)),
                             postcondition="Done", extra_cfg=["CHECK_DEADLOCK FALSE"])
    (chk.wd / "I_TraceSyntax.tla").write_text(mod)
    r = tlc.run(chk.wd, "I_TraceSyntax", cfg, workers=1, timeout=3000, env={"TRACE_FILE": str(f)})
    chk.note_tlc(f"Trace_Syntax/{name}", r, "trace-validation")
    return sorted(tlc.rejected(r, len(lines), "Trace_Syntax"))


def run(chk: core.Check):
    quick = chk.tier == "quick"
    chk.rule = ("Gen: every token string the two grammars derive up to MaxTok tokens over small terminal alphabets (TLC, "
                "leftmost derivations, exhaustive), each also with every single-token mutation (delete, duplicate, swap, "
                "replace by every alphabet token, relative spelling), verdict from the independent recognizer of "
                "Syntax.tla incl. class / capture / variable / regex side conditions; rendered compact and spaced; "
                "ASTXpath must return or raise only the definition error, the three pattern entry points must agree; "
                "accepted xpaths are evaluated on a fixed tree against TreeQ.FindAll of the parsed steps; accepted "
                "patterns must match identically after recompilation and under extra whitespace. Non-trivial: accepted "
                "strings and syntactically valid mutants. Trace: random token strings (validated by Trace_Syntax) and "
                "byte-level noise (totality and agreement only).")
    allraw = []
    for lang, (mq, mt, uq, ut) in {"xpath": (8, 10, 6, 7), "pattern": (10, 12, 7, 8)}.items():
        raw = gen_cases(chk, lang, mq if quick else mt, uq if quick else ut)
        chk.bounds[lang] = {"MaxTok": mq if quick else mt, "MutMax": uq if quick else ut}
        allraw.extend(raw)
        if raw:
            chk.sample(tlc.decode(raw[len(raw) // 3]), limit=4)
    for viol, n, nontriv in core.parallel(_replay, allraw, {}, chunk=200):
        chk.evaluations += n
        chk.nontrivial |= nontriv
        for clause, detail, case in viol:
            chk.add(core.Violation(clause, case, detail))
    # texts that differ only by white space between two words, compiled one after the other in one process (a compiled
    # pattern may be cached: the cache must tell them apart): the one-word texts first, then their two-word mutants
    def has(raw, what):
        return what in raw
    order = [r for r in allraw if has(r, '\\"xy\\"')] + [r for r in allraw if has(r, '\\"v\\":\\"x\\"},{\\"k\\":\\"nm\\",\\"v\\":\\"y\\"')]
    chk.notes["whitespace_pairs_in_one_process"] = len(order)
    for viol, n, nontriv in core.parallel(_replay, order, {}, nproc=1):
        chk.evaluations += n
        for clause, detail, case in viol:
            chk.add(core.Violation(clause, case, detail))
    chk.replayed += len(allraw)
    chk.exhaustive = True
    rng = random.Random(chk.seed + 11)
    seeds = [rng.randrange(1 << 30) for _ in range(32 if quick else 320)]
    lines = []
    for ls, stray in core.parallel(_record, seeds, {"n": 60}):
        lines.extend(ls)
        for s in stray:
            chk.add(core.Violation("trace-stray", {"m": "syntax-trace", **s}, f"{s['text']!r}: {s['stray']}"))
    rej = trace_validate(chk, lines)
    core.canary(chk, lines, trace_validate, what="Trace_Syntax", skip=set(rej))
    chk.traces_accepted += len(lines) - len(rej)
    chk.evaluations += len(lines)
    for i in rej[:25]:
        ln = lines[i - 1]
        chk.add(core.Violation("trace-verdict", {"m": "syntax-trace", **ln},
                               f"{ln['lang']} {ln['text']!r}: accepted={ln['accepted']} contradicts Syntax.tla"))


def replay(chk, data):
    core.use_repo()
    case = data["case"]
    W = World(zoo.BASIC, "plain")
    objs = W.build(TEST_HEAP)
    S = Slots(objs)
    if case["m"] == "syntax":
        for clause, detail, c in check_case(W, objs, S, case):
            chk.add(core.Violation(clause, c, detail))
        return
    text = case["text"]
    import re
    keep = []
    for phase in ((1, 2) if case.get("phase") == 2 else (1,)):
        if phase == 2:      # as recorded: the text was compiled once before the class it names existed
            keep = [define_late(nm) for nm in sorted(set(re.findall(r"Late\d+", text)))]
        if case["lang"] == "xpath":
            x, s = try_xpath(text)
            acc = x is not None
        else:
            v, s, _ = try_pattern(text)
            acc = v[1]
            if s is None and len(set(v)) != 1:
                s = f"entry points disagree: {v}"
    if s:
        chk.add(core.Violation("trace-stray", case, s))
    elif case.get("toks"):
        ln = {"lang": case["lang"], "toks": case["toks"], "text": text, "accepted": bool(acc), "phase": case.get("phase", 1)}
        if trace_validate(chk, [ln], "replay"):
            chk.add(core.Violation("trace-verdict", case, "still contradicts Syntax.tla"))
