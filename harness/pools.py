"""Concretization pools: abstract atoms (small naturals) -> concrete Python values.

Distinct atoms of one pool are values that differ in value or in type; one atom may have two
*variants* (concretely different objects that the property must treat as the same value, e.g. a
frozenset built in two insertion orders).  `value(pool, atom, variant)`.
"""
from __future__ import annotations

import enum
from pathlib import Path


class Color(enum.Enum):
    RED = 1
    GREEN = 2


class IColor(enum.IntEnum):
    ONE = 1


SEP = "):b=<class 'str'>("

_long = "L" * 300


def _fs(*xs):
    return frozenset(xs)


def _fs_rev(*xs):
    # same elements, inserted in another order, and via a union so the table layout differs
    s = set()
    for x in reversed(xs):
        s.add(x)
    return frozenset(s)


POOLSETS: dict[str, dict[str, list]] = {
    # plain values, correctly typed for the zoo annotations
    "plain": {
        "str": ["ab", "abc", "b"],
        "int": [0, 1, 2],
        "optstr": [None, "c", "d"],
        "any": [0, 1, "s"],
    },
    # typed look-alikes and the library's own separator tokens
    "adversarial": {
        "str": ["1", "1" + SEP + "2", "2" + SEP + "3"],
        "int": [0, 1, 2 ** 63 - 1],
        "optstr": [None, "None", ""],
        "any": [1, True, "1"],
    },
    "adversarial2": {
        "str": [_long + "a", _long + "b", ":a=@[-1]="],
        "int": [0, -1, 10],
        "optstr": [None, "é", "é"],
        "any": [1.0, None, "None"],
    },
    "adversarial3": {
        "str": ["", " ", "\U0001F600"],
        "int": [0, 1, 2],
        "optstr": [None, "x", "X"],
        "any": [(), (1,), ((1,),)],
    },
    "adversarial4": {
        "str": ["a", "b", "c"],
        "int": [0, 1, 2],
        "optstr": [None, "x", "y"],
        "any": [Color.RED, 1, IColor.ONE],
    },
}

RICH = {
    "r_s": ["", "yes", "null", "~", "1e3", "0x1F", "2001-01-01", "it's \"q\" \\ back", "line1\nline2\ttab\r", "\x00nul\x01\x7f",
            "\x85\u2028\ufeff", "\U0001F600 e\u0301", "x" * 300, "- a: b #c", "{[,&*!|>%@`]}", " lead", "trail ", "None", "true", "1"],
    "r_i": [0, 1, -1, 2 ** 63 - 1, -2 ** 63, 2 ** 31, 255, 10 ** 15],
    "r_fl": [0.0, -0.0, 1.5, -2.25, 5e-324, 1e300, 1.0, 3.141592653589793, 1e-7],
    "r_bo": [False, True],
    "r_os": [None, "", "None", "x"],
    "r_e": [Color.RED, Color.GREEN],
    "r_pth": [Path("a/b"), Path("/abs/p.txt"), Path("x")],
    "r_lit": ["a", "b"],
    "r_tup": [(), (1,), (0, -5, 2 ** 40)],
    "r_ftup": [("", 0), ("a", 1), ("\u00e9", -7)],
}

SEPY = "):y=<class 'str'>("
for _ps in POOLSETS.values():
    _ps.update(RICH)
    _ps["fixed7"] = [7]
    _ps["picky"] = ["", "n", "boom"]
for _ps in POOLSETS.values():
    _ps["sepx"] = ["1", "1" + SEPY + "2", "q"]
    _ps["sepy"] = ["3", "2" + SEPY + "3", "q"]

# variants: (pool set, pool, atom) -> second concrete representative of the same abstract value
VARIANTS: dict[tuple[str, str, int], object] = {}

POOLSETS["sets"] = {
    "sepx": ["a", "b", "c"], "sepy": ["a", "b", "c"], "fixed7": [7], "picky": ["", "n", "boom"], **RICH,
    "str": ["x", "y", "z"],
    "int": [0, 1, 2],
    "optstr": [None, "c", "d"],
    "any": [_fs(8, 16, 0), _fs(8, 16), _fs("ab", "ba", "c")],
}
VARIANTS[("sets", "any", 0)] = _fs_rev(8, 16, 0)
VARIANTS[("sets", "any", 1)] = _fs_rev(8, 16)
VARIANTS[("sets", "any", 2)] = _fs_rev("ab", "ba", "c")

# frozensets nested in other containers (the stable rendering of a value has to recurse into every container)
POOLSETS["sets2"] = dict(POOLSETS["sets"])
POOLSETS["sets2"]["str"] = [_long + "a", _long + "b", "z"]       # equal for the first 300 characters
POOLSETS["sets2"]["any"] = [(_fs(8, 16, 0), 1), (1, (_fs("ab", "ba", "c"),)), _fs(_fs(8, 16), 3)]
VARIANTS[("sets2", "any", 0)] = (_fs_rev(8, 16, 0), 1)
VARIANTS[("sets2", "any", 1)] = (1, (_fs_rev("ab", "ba", "c"),))
VARIANTS[("sets2", "any", 2)] = _fs_rev(_fs_rev(8, 16), 3)

# strings that differ only in the length of a run of blanks (C08: white space inside a regex literal is significant,
# between the tokens of a pattern it is not)
POOLSETS["ws"] = dict(POOLSETS["plain"])
POOLSETS["ws"]["str"] = ["a b", "a  b", "b"]

# non-init property defaults of the zoo (atom 0 is the dataclass default)
FIXED: dict = {}


def value(poolset: str, pool: str, atom: int, variant: int = 0):
    if variant and (poolset, pool, atom) in VARIANTS:
        return VARIANTS[(poolset, pool, atom)]
    return POOLSETS[poolset][pool][atom]


def origins():
    """Origin atoms -> concrete origins of every kind (fresh objects on each call)."""
    from pyoak.origin import (NO_ORIGIN, CodeOrigin, GeneratedCodeOrigin, MemoryTextSource,
                              MultiOrigin, XMLFileOrigin, XMLPath, get_code_range, FileSource, Origin,
                              NO_POSITION, NO_SOURCE, EntireSourcePosition)

    src = MemoryTextSource("abcdefgh", source_uri="mem1")
    src2 = MemoryTextSource("zzzz", source_uri="mem2")
    o1 = CodeOrigin(src, get_code_range(0, 1, 0, 3, 1, 3))
    o2 = CodeOrigin(src, get_code_range(2, 1, 2, 5, 1, 5))
    return [
        NO_ORIGIN,
        o1,
        o2,
        GeneratedCodeOrigin(src),
        MultiOrigin([o1, CodeOrigin(src2, get_code_range(0, 1, 0, 1, 1, 1))]),
        XMLFileOrigin(FileSource(Path("dir/f.xml")), XMLPath("/a/b")),
        CodeOrigin(src2, get_code_range(0, 1, 0, 3, 1, 3)),
        Origin(src, NO_POSITION),
        Origin(NO_SOURCE, EntireSourcePosition()),
        MultiOrigin([XMLFileOrigin(FileSource(Path("dir/f.xml")), XMLPath("/a/c")), o2]),
    ]
