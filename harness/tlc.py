"""Running TLC and reading what it prints."""
from __future__ import annotations

import json
import os
import re
import shutil
import subprocess
import time
from dataclasses import dataclass, field
from pathlib import Path

VERIF = Path(__file__).resolve().parent.parent
SPEC = VERIF / "spec"
JAR = "/opt/veriftools/tla/tla2tools.jar:/opt/veriftools/tla/CommunityModules-deps.jar"


class MachineryError(Exception):
    """TLC crashed / output unparsable / vacuous run: exit code 2, never a VIOLATION."""


@dataclass
class TLCResult:
    stdout: str
    wall_s: float
    generated: int = 0
    distinct: int = 0
    depth: int = 0
    ok: bool = False  # "No error has been found"
    violated: list[str] = field(default_factory=list)  # names of violated invariants / properties
    json_raw: list = field(default_factory=list)   # unparsed JSON case lines (TLC string literals)
    _json: list | None = None

    @property
    def json_lines(self) -> list:
        if self._json is None:
            self._json = [decode(x) for x in self.json_raw]
        return self._json
    coverage: dict = field(default_factory=dict)  # action name -> (distinct, total)
    error_text: str = ""
    postcondition_failed: bool = False


def workdir(tag: str) -> Path:
    d = VERIF / ".work" / tag
    if d.exists():
        shutil.rmtree(d)
    d.mkdir(parents=True)
    return d


def prepare(wd: Path, extra_modules: dict[str, str] | None = None) -> None:
    """Copy all spec modules (flat) into the work dir, plus generated ones."""
    for p in SPEC.rglob("*.tla"):
        shutil.copy(p, wd / p.name)
    for name, text in (extra_modules or {}).items():
        (wd / name).write_text(text)


_gen_re = re.compile(r"(\d+) states generated, (\d+) distinct states found")
_depth_re = re.compile(r"The depth of the complete state graph search is (\d+)")
_inv_re = re.compile(r"Error: Invariant (\S+) is violated")
_prop_re = re.compile(r"Error: Action property (\S+) is violated|Error: Temporal properties were violated")
_cov_re = re.compile(r"^<(\w+) line \d+, col \d+ to line \d+, col \d+ of module (\w+)>: (\d+):(\d+)", re.M)


def run(wd: Path, module: str, cfg: str, *, workers: int = 1, timeout: int = 600,
        simulate: str | None = None, depth: int | None = None, seed: int | None = None,
        coverage: bool = False, env: dict | None = None, deadlock: bool = False,
        heap: str = "4g", dfid: int | None = None, gc_threads: int | None = None) -> TLCResult:
    (wd / f"{module}.cfg").write_text(cfg)
    meta = wd / f"meta_{module}"
    if meta.exists():
        shutil.rmtree(meta)
    gc = ["-XX:+UseSerialGC"] if gc_threads == 1 else ["-XX:+UseParallelGC"] + ([f"-XX:ParallelGCThreads={gc_threads}"] if gc_threads else [])
    cmd = ["java", f"-Xmx{heap}", *gc, "-cp", JAR, "tlc2.TLC",
           "-workers", str(workers), "-metadir", str(meta), "-noGenerateSpecTE"]
    if not deadlock:
        cmd += ["-deadlock"]
    if coverage:
        cmd += ["-coverage", "1"]
    if simulate is not None:
        cmd += ["-simulate", simulate]
    if depth is not None:
        cmd += ["-depth", str(depth)]
    if seed is not None:
        cmd += ["-seed", str(seed)]
    if dfid is not None:
        cmd += ["-dfid", str(dfid)]
    cmd += [f"{module}.tla"]
    e = dict(os.environ)
    e.update(env or {})
    t0 = time.time()
    try:
        p = subprocess.run(cmd, cwd=wd, capture_output=True, text=True, timeout=timeout, env=e)
    except subprocess.TimeoutExpired as ex:
        out = ex.stdout.decode() if isinstance(ex.stdout, bytes) else (ex.stdout or "")
        if simulate is not None:
            # a simulation under a time limit is allowed to be cut
            r = parse(out, time.time() - t0)
            r.ok = not r.violated and "Error:" not in _strip_json(out)
            return r
        raise MachineryError(f"TLC timed out after {timeout}s on {module}")
    r = parse(p.stdout + p.stderr, time.time() - t0)
    shutil.rmtree(meta, ignore_errors=True)
    return r


def _strip_json(out: str) -> str:
    return "\n".join(l for l in out.splitlines() if not l.startswith('"{'))


def parse(out: str, wall: float) -> TLCResult:
    r = TLCResult(stdout="", wall_s=wall)
    other = []
    for line in out.splitlines():
        if line.startswith('"{') or line.startswith('"['):
            if not line.endswith('}"') and not line.endswith(']"'):
                raise MachineryError("truncated / interleaved TLC JSON line: " + line[:200])
            r.json_raw.append(line)
            continue
        other.append(line)
    text = "\n".join(other)
    r.stdout = text
    ms = _gen_re.findall(text)
    if ms:
        r.generated, r.distinct = int(ms[-1][0]), int(ms[-1][1])
    m = _depth_re.search(text)
    if m:
        r.depth = int(m.group(1))
    r.violated = _inv_re.findall(text)
    for m in _prop_re.finditer(text):
        r.violated.append(m.group(1) or "temporal")
    r.ok = "No error has been found" in text
    if "Postcondition" in text and ("violated" in text or "false" in text.lower().split("postcondition")[-1][:200]):
        if re.search(r"Error:.*[Pp]ostcondition", text) or "Postcondition" in text and "violated" in text:
            r.postcondition_failed = True
    for m in _cov_re.finditer(text):
        name = m.group(1)
        d, t = int(m.group(3)), int(m.group(4))
        od, ot = r.coverage.get(name, (0, 0))
        r.coverage[name] = (max(od, d), max(ot, t))
    if not r.ok and not r.violated:
        errs = [l for l in other if l.startswith("Error:") or "Exception" in l]
        r.error_text = "\n".join(errs[:20])
    return r


def decode(line: str):
    """One printed case line (a TLA+ string literal holding JSON) -> Python value."""
    try:
        return json.loads(json.loads(line))
    except Exception:
        raise MachineryError("unparsable TLC JSON line: " + line[:200])


def rejected(r: TLCResult, nlines: int, what: str) -> dict:
    """Rejections reported by a trace specification: {line number: info}.  The trace spec prints one JSON record per
    rejected line and, from its POSTCONDITION, the total number of rejected lines; both must agree, and every line
    must have been consumed -- otherwise the run is a machinery failure, never a (non-)verdict."""
    out, total = {}, None
    for j in r.json_lines:
        if isinstance(j, dict) and "rej" in j:
            out[int(j["rej"])] = j.get("info")
        elif isinstance(j, dict) and "rejected_total" in j:
            total = int(j["rejected_total"])
    if r.distinct - 1 != nlines:
        raise MachineryError(f"{what}: consumed {r.distinct - 1} of {nlines} lines\n" + r.stdout[-3000:])
    if total is None or total != len(out):
        raise MachineryError(f"{what}: {len(out)} rejections parsed but the trace spec counted {total}\n" + r.stdout[-2000:])
    return out


def require_clean(r: TLCResult, what: str) -> None:
    """A run that neither completed nor reported a property violation is a machinery failure."""
    if r.ok or r.violated:
        return
    tail = "\n".join(r.stdout.splitlines()[-40:])
    raise MachineryError(f"TLC failed on {what}:\n{r.error_text}\n---\n{tail}")
