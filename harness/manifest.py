"""Single source of MANIFEST.json (bin/mkmanifest writes it)."""
import json
from pathlib import Path

VERIF = Path(__file__).resolve().parent.parent

CLAIMS = {
    "C01": dict(
        technique="TLA+ oracle (Heap.tla CEq) + TLC enumeration of heaps, pairs and single-point variations replayed into the library (several value pools, second build, two other processes) + TLC trace validation",
        text="CEq is defined in TLA+ from the statement (class, comparable property atoms, children field by field and position by position); TLC checks it is an equivalence that is blind to origins and non-comparable properties, enumerates every heap of <= N objects over three class profiles with all pairs and all single-point variations, and the library's content_id / is_equal answers are compared with CEq under adversarial concretization pools (typed look-alikes, separator strings, frozensets built in two orders), against a second build, and against content ids computed in processes with another hash seed and reordered field declarations. Recorded random forests are validated by Trace_Content.tla.",
        note="Trusted: TLC, zoo renderer, pools (distinct atoms are values that differ in value or type). blake2b collisions at digest size 8 are assumed absent.",
        design="6 C01"),
    "C02": dict(
        technique="TLA+ oracle (Heap.tla Eq = CEq + origin equality per position) + TLC enumeration replayed into the library + TLC trace validation",
        text="Eq is defined in TLA+ over two heaps; TLC checks it is an equivalence refining CEq and enumerates every heap of <= N objects with two origin atoms, all pairs and every single-position origin flip / property change / child removal; the library's ==, != (both orders), hash stability, non-node operands and transitivity over all triples are compared with Eq. Recorded random forests with mutated copies are validated by Trace_Content.tla.",
        note="Trusted: TLC, zoo renderer, origin pool (distinct origin atoms are origins that compare unequal).",
        design="6 C02"),
    "C03": dict(
        technique="TLA+ state machine (Registry.tla) model-checked with TLC; every transition replayed into the library; recorded histories validated by a TLA+ trace specification",
        text="The v2 registry is specified as a TLA+ state machine with one action per public operation (construct, dataclasses.replace, ASTNode.replace ok/failing, duplicate, detach, detach_self, drop/hold + garbage collection) and abstract ids (digest input + collision suffix). TLC checks RegExact, IdsUnique, IdDeterministic, FailFrame, NoPin (TypeOK) for every interleaving on 3 slots under injective and all-colliding digests (slot symmetry), exports every transition with a witness history, and each is replayed against the real library comparing registration, get_any / Cls.get for every class and strictness, id partition, id determinism, detach_self results and collection of dropped nodes. Random 30-50 step histories on ~25 objects with real digest sizes 8/2/1 are recorded and validated step by step by Trace_Registry.tla.",
        note="Trusted: TLC (incl. symmetry reduction), the zoo renderer, CPython reference counting (gc.collect() before declaring a leak). All-colliding digests are forced by intercepting hashlib.blake2b for id digests in the test process.",
        design="4.1, 6 C03"),
    "C14": dict(
        technique="TLA+ state machine (Registry.tla: Dup / Replace / DcReplace actions with post-condition invariants) + TLC transition export replayed into the library + TLA+ trace validation",
        text="DupFaithful, ReplaceFaithful and DcReplaceFaithful are invariants of the Registry machine checked by TLC on 3-slot instances and a depth-bounded 4-slot instance that can duplicate real trees; every transition ending in duplicate / replace / dataclasses.replace is replayed: all nodes new, structure and identities per position, registration, ids not shared with registered originals, id determinism, unchanged init fields are the very same objects. Recorded random histories are validated by Trace_Registry.tla.",
        note="Trusted: as C03. The parenthetical id clause is required only when the original carries no collision suffix (DESIGN 3.3).",
        design="4.1, 6 C14"),
    "C04": dict(
        technique="TLA+ state machine (Registry.tla Ser / Deser as a fold with id forcing, RoundTrip invariant) + TLC transition export replayed in 4 formats + TLA+ trace validation of recorded histories and of a fresh second process",
        text="Serialization is part of the Registry machine: a payload is the tree by value with ids, Deser is the fold lookup-or-create-and-force-id. TLC checks RoundTrip / RegExact over every interleaving of construct, twin construct, drop, drop-all, detach_self between Ser and Deser (3 slots exhaustive, 4 slots depth-bounded, both digest modes); every transition ending in a deserialization is replayed in dict, JSON, MessagePack and YAML. Recorded random histories over eleven classes (one with every representable property kind) and ten origins of every kind are validated step by step by Trace_Registry.tla, and payloads (incl. index-based sources) are read back in a fresh interpreter whose alpha is validated by the same trace spec.",
        note="Trusted: TLC, orjson / msgpack / PyYAML / mashumaro for values inside the stated representable kinds (pools avoid NaN, lone surrogates, > 64-bit ints).",
        design="4.1, 6 C04"),
    "C06": dict(
        technique="TLA+ oracle (TreeQ.tla: parent info, ancestors, depth, relative depth, first ancestor of type, path) + TLC tree enumeration replayed into pyoak.tree.Tree + TLC trace validation",
        text="The upward queries are defined in TLA+ from the downward structure (module TreeQ over Heap); TLC checks their mutual consistency (depth = chain length, chain ends at the root, the stored position really holds the node, paths injective) on every tree of <= N objects without repeated objects and exports, per node and per ordered pair, the expected answers incl. ValueError / KeyError outcomes; the driver compares Tree's answers, follows every get_xpath spelling with an independent walker, and probes outside nodes and content-identical foreign twins. Recorded queries on random trees up to 40 nodes are validated by Trace_Tree.tla.",
        note="Trusted: TLC, zoo renderer. Precondition as stated: all nodes registered, no object twice.",
        design="6 C06"),
    "C07": dict(
        technique="TLA+ oracle with two formulations of the xpath semantics (TreeQ.tla FindAll top-down, Match bottom-up; TLC checks Agree) + TLC enumeration of trees x paths replayed + TLC trace validation",
        text="The documented path semantics is written twice in TLA+ (top-down search, bottom-up match) and TLC checks the two agree on every tree and path tried; every tree of <= N objects x all 1-step paths, all / sampled 2-step and sampled 3-step paths is exported with the expected result set and replayed through three text spellings against ASTXpath.findall (duplicate-free, as a set), find, match for every node with root and Tree arguments, and the node.find / node.findall front-ends. Random trees with tuples up to 13 and random 1-4 step paths with indices up to 12 are recorded and validated by Trace_Tree.tla.",
        note="Trusted: TLC (incl. Randomization!RandomSubset for the path samples), zoo renderer, the xpath text renderer. The order in which findall yields is not part of the property and not compared; trees with one object at two positions are excluded.",
        design="6 C07"),
    "C08": dict(
        technique="TLA+ oracle (Pattern.tla: Match / Multi over a pattern AST, tiny regex semantics over character sequences) + TLC generation of exact patterns and single-point variations replayed through the text grammar + TLC trace validation of random patterns",
        text="The pattern semantics of the statement is a recursive TLA+ operator over pattern ASTs (classes by instance, field existence, regex anchored at the start of str(value) modelled on character sequences, None, [], nested, sequences with / without tail, variables with content equality for nodes, captures as slot / atom / tuple-of-slots values, empty captures on failure) plus Multi = first matching rule; TLC checks that the exact pattern of every node matches it, that generated patterns are well formed and that Multi returns the first match, and exports for the newest node of every heap the exact pattern and its variations with expected verdict and captures. The driver renders each in three whitespace styles, compiles all before matching, and matches fresh / cached / recompiled / through MultiPatternMatcher comparing captures with `is`. The same generator runs a second time over the pool set `ws` (own Zoo.tla: strings differing only in a run of blanks) where Gen_Pattern!Stretch adds the exact regex with every blank doubled, so that regexes differing only in white space inside the literal are compiled in one process and must keep their own verdicts. Random patterns of depth <= 3 written against random nodes are recorded and validated by Trace_Pattern.tla.",
        note="Trusted: TLC, the pattern text renderer, pools (str() of plain pool values as character sequences in Zoo.tla). Not compared (statement silent): sequence specs on str values, regex specs on node values.",
        design="6 C08"),
    "C17": dict(
        technique="TLA+ token-level grammars (Syntax.tla recognizer + Gen_Syntax.tla stack-machine generator, TLC checks generator subset of recognizer) + exhaustive export of derived and single-token-mutated strings replayed into the compilers + TLC trace validation of random token strings",
        text="Both text grammars are specified twice at token level: a generator (leftmost derivations by a stack machine) and an independent recognizer with the static side conditions (known node classes, unique capture names, variables after their captures, compilable regexes); TLC checks every derived string is recognized and exports every derived string up to MaxTok tokens plus every single-token mutation with the verdict. The driver renders each compact and spaced: ASTXpath returns or raises only ASTXpathDefinitionError, validate_pattern / from_pattern / MultiPatternMatcher agree and leak nothing; accepted xpaths are evaluated on a fixed tree against TreeQ.FindAll of the steps the spec parses from the tokens; accepted patterns match identically after recompilation and extra whitespace. Random token strings are recorded and validated by Trace_Syntax.tla; byte-level noise is checked for totality and agreement only.",
        note="Trusted: TLC, the token renderer (blanks only where two alphanumeric tokens would merge). Leading whitespace of xpaths and the empty text are outside the statement.",
        design="6 C17"),
    "C09": dict(
        technique="TLA+ oracle (Visitor.tla: Dispatch along the MRO, Transform as a term with identity bookkeeping) + TLC enumeration of trees x rule sets replayed through generated visitor classes + TLC trace validation",
        text="Dispatch and transform are pure TLA+ operators; the result of transform is a term (same object / none / new node with per-field `unchanged value object` or child terms / raise). TLC checks that rule sets changing nothing return the tree itself and that strict dispatch never fires a base-class rule for a subclass, and exports for every tree of <= N objects every rule set of at most two rules over five rule kinds, strict and non-strict, plus the dispatch table for every class x method subset. The driver generates the visitor class, runs transform and compares identities (`is` on unchanged subtrees and field values, new nodes on every ancestor of a change), dropped tuple elements, None in single fields, exception propagation, and that input fingerprints and registration are unchanged. Random trees x random rule sets over ten classes are recorded and validated by Trace_Visitor.tla.",
        note="Trusted: TLC, zoo renderer. The rule family is the one named in the statement; visit_ methods call generic_visit first (bottom-up). validate=True naming checks are not part of this check.",
        design="6 C09"),
    "C15": dict(
        technique="TLA+ oracle (Origin.tla) with TLAPS proofs of the interval laws for all naturals + exhaustive TLC case enumeration on a grid replayed into pyoak.origin + TLC trace validation on large indices / longer operand tuples",
        text="Containment, overlap, before, hull are TLA+ operators on ranges and merge / concat / + are operators on origin terms; TLAPS proves the 13 interval-law obligations for all naturals (partial order of containment, symmetric overlap incl. touching, Lt, hull contains both operands / commutative / associative / idempotent / smallest) and TLC re-checks them plus flatness of merge / concat on the grid. Every pair and triple of the 21 ranges on 0..5, every point / range construction incl. ill-formed ones, every tuple of up to 4 of 8 origin atoms over 3 sources (multi-origin operands as produced by merge) and get_raw for every range over texts of length <= 6 is exported with its expected result and replayed (results abstracted by type, source, range, member order; source sets; fqn; slices). Ranges on indices up to 2^30 and operand tuples up to 6 are recorded and validated by Trace_Origin.tla.",
        note="Trusted: TLAPS back ends (SMT), TLC. fqn punctuation is rendered by the driver from the spec's member list; user-built nested multi-origins are outside the stated precondition.",
        design="6 C15"),
    "C16": dict(
        technique="TLA+ state machine of the process-global option store (SerOpts.tla: Begin / Emit / Fail / End) model-checked with TLC incl. mutant variants; every call sequence replayed with failure injection; recorded call sequences validated by a TLA+ trace specification",
        text="The option store is a TLA+ machine: Begin merges the call's options into the global store, Emit is one nested object seeing the store, Fail raises at a chosen nested object, End returns; TLC checks Clean (store empty between calls) and Sees (every nested object sees exactly the call's options) over all call sequences x option subsets x failure points, and that the spec variants modelling the two calibration mutants violate Clean. Every completed sequence is replayed on a 3-level tree with an armable failing property / corrupted payloads through all eight entry points: outcome, per-object output features for every option, and a default probe after every call. Random 25-call sequences are recorded (what each nested node exhibited, probe clean) and validated by Trace_SerOpts.tla.",
        note="Trusted: TLC; feature extraction of the driver. The default-tagging clause is asserted for calls without the test dialect and without tag suppression; under the test dialect index-based sources are not observable (masked in the trace spec).",
        design="6 C16"),
    "C12": dict(
        technique="TLA+ oracle (Accessors.tla: dataclass field order with in-place overrides, flag filter, name order, child enumeration) + TLC generation of class hierarchies and first-use orders replayed against freshly defined classes",
        text="Accessors.tla derives from the class bodies alone the dataclass field order (inherited first, a re-declared field keeps its slot), the property / child split, the flag filter (system fields on their own flags) and the expected output of all eight accessors; TLC checks structural invariants and generates every hierarchy over a ten-entry field menu (bounded classes and fields per class) with the expected results for all 32 flag combinations x sort_keys and every instance (absent optionals, empty tuples, falsy children), plus every order of first use of the four self-installing generated accessors on a fixed three-level hierarchy with an overridden field. Each case is replayed in a fresh module namespace so first use really is first use.",
        note="Trusted: TLC, the class renderer (menu entry -> dataclass field), CPython dataclasses. No code->spec trace direction: the quantified object is the class definition, which the TLC generator enumerates; every exported case is executed against the library.",
        design="6 C12"),
    "C11": dict(
        technique="TLA+ oracle (Typing.tla: annotation terms in prefix notation, Classify) + exhaustive TLC term enumeration replayed as real class definitions in seven definition variants + TLC trace validation of random deeper terms",
        text="Annotations are terms over ten leaves and eleven constructors; Classify (child / prop / reject) is defined in TLA+ from the statement and TLC checks the three verdicts partition the terms and that a property never mentions a node class or a mutable collection. Every term up to the depth bound is exported with its verdict and defined as a dataclass field in seven variants (plain, postponed, forward references defined later in both modes, NewType-wrapped, inherited, re-declared), eight same-verdict fields per class with culprits re-run alone: InvalidFieldAnnotations at definition or first instantiation, or the classification reported by get_child_fields / get_property_fields. Random terms of depth <= 3 are recorded in four variants and validated by Trace_Typing.tla.",
        note="Trusted: TLC, the annotation renderer, CPython typing introspection. Exceptions raised inside mashumaro (annotations it cannot serialize) are counted and not compared.",
        design="6 C11"),
    "C13": dict(
        technique="TLA+ oracle (Typing.tla: Conforms over value and annotation terms) + exhaustive TLC enumeration of (accepted annotation, value) pairs replayed as real constructions with the switch on and off + TLC trace validation",
        text="Conforms(value, annotation) is a recursive TLA+ operator written from the statement (bool only to bool, ints for float, None only where allowed, exact length for fixed tuples, literals by membership, unions by any member, nodes by instance, NewType transparent); TLC exports every accepted annotation term up to the depth bound x 29 value terms; each annotation becomes a class, each value a construction with RUNTIME_TYPE_CHECK on (success or InvalidTypes naming exactly the field) and off (same node); three-field classes check invalid_fields is exactly the set of non-conforming fields. Random accepted terms of depth <= 3 x random values are recorded and validated by Trace_Typing.tla.",
        note="Trusted: TLC, renderer. Not compared (statement silent): bool values against annotations mentioning float or Literal, str values for Sequence, Mapping annotations.",
        design="6 C13"),
    "C20": dict(
        technique="TLA+ oracles of C05 / C07 (Heap.tla traversal orders, TreeQ.tla path semantics) lifted to the legacy API in Gen_LegacyTrav.tla + TLC tree enumeration replayed into pyoak.legacy + TLC trace validation",
        text="Legacy traversal is specified as the C05 orders shifted by the start node (offered to filter and prune unless skip_self) and legacy xpath matching as TreeQ.Match along the parent chain; TLC checks the shift law and the agreement of the two path formulations and exports, for every attached legacy tree of <= N objects over six classes with tuple, list, optional and required child fields, every prune x filter subset of the nodes x skip_self for dfs pre / post / bfs, gather runs, all 1-step and sampled / derived multi-step xpaths with the expected matching node set, and the path calculate_xpath must assign to every node. Random attached trees incl. 13-element tuples / lists with indices up to 12 are recorded and validated by Trace_LegacyTrav.tla.",
        note="Trusted: TLC, zoo renderer, xpath text renderer. Malformed-text rejection of the legacy parser shares the grammar of C17 and is exercised there only for the current parser.",
        design="6 C20"),
    "C18": dict(
        technique="TLA+ transition machine of the legacy operations (Legacy.tla, transcribed critical section by critical section) model-checked by TLC with the C18 clauses as invariants (LegacyMC.tla) + TLC-generated witness programs of every model transition executed against the real classes + two TLC trace validations of every distinct observed transition: exact next-state conformance with the machine (Trace_LegacyMachine.tla) and the C18 clauses on the observed states (LegacyMonitor.tla / Trace_Legacy.tla); a blind TLC enumeration of all short programs (LegacyScripts.tla) as a cross-check",
        text="(a) TLC explores Legacy.tla itself: every history of bounded length over construct (three modes), attach, detach, detach_self, replace of a property / of children / with a forbidden key, replace_with a node or None, duplicate attached / detached, ASTTransformVisitor.transform and ASTTransformer.execute with five kinds of user rule (keep / bump / fresh / drop / boom), with states [objects with stored id / original id / parent id, field, index / cached content id; registry]; invariants: children attached with right parent / field / index, parent back link, cached content id equal to the structural one -- for histories of successful operations without double placement in which no node ever shared its id with a node below it (the recorded deviation id-twin-nested; without that guard TLC finds it). (b) TLC exports the witness program of every transition (also from Prelude states: every operation two / three deep after a given program); these, a blind enumeration of all programs of three operations and random 12-step programs over six classes are executed against the real classes. (c) Every distinct observed transition (full pre-state incl. stored links and registry, operation, outcome, post-state) of a modelled operation must be exactly the transition Legacy.tla predicts; every transition from a consistent history is judged by the five C18 clauses on the observed post-state (incl. content_id equal to an independently built equal tree; ancestors / depth / calculated xpath).",
        note="A clause failure is a KNOWN-FINDING only if the observed state is exactly what the machine predicts and has the shape id-twin-nested; transitions that differ from the machine without failing a clause are counted (model_divergences), not alarms. Cached content ids are bound through cidok on lines without stale caches.",
        design="6 C18, Appendix A, 14.7"),
    "C19": dict(
        technique="same machine, executions and trace validations as C18; C19 as invariants of the design in LegacyMC.tla (a rejected operation leaves the state unchanged unless the error came out of the attach phase) and as the frame predicate of LegacyMonitor.tla on every observed rejected transition",
        text="TLC checks on Legacy.tla that every rejected operation from a clean history leaves the whole state unchanged except when the error is raised inside _attach_inner after earlier children were linked / registered (the named deviation partial-attach-effects), and that DuplicateChildren / IDCollision / ReplaceError never go with effects. Every distinct observed rejected transition (documented legacy errors incl. ASTTransformError) from a state reached through successful operations is validated by TLC against the C19 frame: attached?, parent / field / index, field values, id, original id, content_id of every pre-existing node and the registry size unchanged; and, for modelled operations, against the machine's exact prediction.",
        note="A frame failure is a KNOWN-FINDING only if the observed post-state is exactly the partial state Legacy.tla predicts: for an attach-phase error partial-attach-effects, for ASTTransformer.execute after earlier replacements transformer-partial-effects. Anything else is a VIOLATION. LegacyMC also checks C19VisitorAtomic (a failed visitor transformation of an attached node changes nothing).",
        design="6 C19, 7, 14.7"),
    "C10": dict(
        technique="TLA+ action properties (Immutable, MembershipFrame, FailFrame) on Registry.tla + Observe actions replayed with per-step fingerprints of every live node",
        text="In the Registry machine no action changes the record of a surviving slot (Immutable) and registry membership changes only in detach / detach_self / replace on the receiver's subtree (MembershipFrame); Observe actions stand for every read-only operation kind (traversals, Tree queries, xpath, patterns, visitors, transformers, comparison, hashing, rich printing, accessors, (de)serialization, setattr / delattr on every field) and are UNCHANGED. TLC exports every transition; the driver fingerprints every live node before each call and compares after it, and compares the whole abstract state with the spec's. Recorded histories are checked the same way at every step.",
        note="Trusted: TLC; a field counts as changed if it holds another node object, or a non-node value that is not equal / not of the same type.",
        design="6 C10"),
    "C05": dict(
        technique="TLA+ oracle (Heap.tla Pre/Post/Bfs/Gather) + TLC heap enumeration replayed into the library + TLC trace validation of recorded traversals",
        text="TLC enumerates every heap of <= N objects over three class profiles and, for the tree rooted at the newest object, every prune x filter subset; the expected dfs/bfs/gather/children observations are computed by the TLA+ operators of Heap.tla and replayed against the real library (order, position info, offered sets). Random trees of up to 40 objects are recorded from the library and accepted or rejected line by line by Trace_Traverse.tla.",
        note="Trusted: TLC, the zoo renderer (table -> dataclasses / Zoo.tla), CPython. Predicates are sets of (node, parent, field, index) edges; trees with more than 120 positions are not recorded.",
        design="6 C05"),
}

NOT_YET = {
}


def build() -> dict:
    props = [json.loads(l) for l in (VERIF / "properties.jsonl").read_text().splitlines() if l.strip()]
    checks = []
    na = []
    for p in props:
        pid = p["id"]
        if pid in CLAIMS:
            c = CLAIMS[pid]
            checks.append({
                "property_id": pid,
                "quick_cmd": f"bin/check {pid} --tier quick",
                "thorough_cmd": f"bin/check {pid} --tier thorough",
                "evidence_file": f"evidence/{pid}.json",
                "replay_cmd_template": f"bin/check {pid} --replay {{path}}",
                "engine": "tla-spec",
                "level_claimed": {"category": c.get("category", "model_checking"), "text": c["text"],
                                  "design_ref": "DESIGN.md section " + c["design"]},
                "level_note": c["note"],
                "technique": c["technique"],
            })
        else:
            na.append({"property_id": pid,
                       "reason": NOT_YET.get(pid, "check not built yet in this session (the TLA+ technique applies; see DESIGN.md section 6); not claimed until its spec, replay and trace validation exist")})
    return {
        "version": 1,
        "setup_cmd": "bin/setup",
        "hooks": {
            "guard": "PYOAK_VERIF",
            "enable": "PYOAK_VERIF=1 in the environment of the process importing pyoak (pure Python, no build); checks import pyoak from $PYOAK_REPO/src (default /repo/src)",
            "baseline_off_cmd": "cd /repo && env -u PYOAK_VERIF /venv/bin/python -m pytest -ra -q -p no:cacheprovider --timeout=900 --continue-on-collection-errors",
            "source_commits": [],
            "add_only": True,
        },
        "engines": [
            {"name": "tla-spec", "path": "spec/", "serves_properties": sorted(CLAIMS),
             "kind_free_text": "explicit TLA+ specification (spec/*.tla) checked with TLC; bound to the code by spec->code replay of TLC-enumerated cases/behaviours and code->spec TLC trace validation of recorded executions (harness/)"},
        ],
        "checks": checks,
        "not_applicable": na,
        "notes": "All checks: bin/check <ID> --tier quick|thorough; exit 0 ok, 1 VIOLATION, 2 machinery failure. Known findings: known_findings.json.",
    }


if __name__ == "__main__":
    (VERIF / "MANIFEST.json").write_text(json.dumps(build(), indent=1) + "\n")
