"""Rendering abstract xpaths (sequences of steps [any, f, i, c]) as text of the documented grammar."""
from __future__ import annotations


def spellable(steps: list[dict]) -> bool:
    """Every step needs at least one visible part; an entirely empty step cannot be written
    (the grammar reads it as part of '//')."""
    return True


def render(steps: list[dict], style: int = 0, prefix: str = "", base: str = "ASTNode") -> str:
    """style 0: compact; 1: blanks between all tokens; 2: relative spelling of a leading '//' and '[]' for
    'no index'.  Class names get `prefix` (zoo prefix)."""
    out = ""
    last = len(steps) - 1
    sp = " " if style == 1 else ""
    for k, st in enumerate(steps):
        f, i, c, anyw = st["f"], st["i"], st["c"], st["any"]
        cls = None if c == "none" else (base if c == "ASTNode" else prefix + c)
        if cls is None and (k == last or (f == "none" and i < 0)):
            cls = base           # the last step must name a class; an empty step is spelled with the base class
        sep = "//" if anyw else "/"
        if k == 0 and anyw and style == 2:
            sep = ""             # a path not starting with '/' is the same as one starting with '//'
        part = sep
        if f != "none":
            part += sp + "@" + f
        if i >= 0:
            part += sp + "[" + str(i) + "]"
        elif style == 2 and f != "none":
            part += "[]"
        if cls is not None:
            # a blank is needed between @field and the class name when nothing separates them
            need = part.endswith(f) and f != "none" and not part.endswith("]")
            part += (" " if (need or sp) else "") + cls
        out += part + sp
    return out.strip() if style != 2 else out.strip()
