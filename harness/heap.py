"""Building real pyoak objects from abstract heaps, and abstracting real objects back (alpha)."""
from __future__ import annotations

import gc
from typing import Any

from . import pools as P
from .zoo import ZooInfo, load_py


def slot_order(h: dict) -> list[str]:
    return sorted(h.keys(), key=lambda s: int(s[1:]))


class World:
    """One concretization: zoo module + pool set + origin pool."""

    def __init__(self, zoo: dict, poolset: str = "plain", legacy: bool = False, mod=None):
        self.zoo = zoo
        self.legacy = legacy
        self.zi = ZooInfo(zoo)
        self.mod = mod or load_py(zoo, legacy=legacy)
        self.poolset = poolset
        self.origins = P.origins()
        self.pre = zoo.get("prefix", "")

    def cls(self, name: str):
        if name == "ASTNode":
            if self.legacy:
                from pyoak.legacy.node import AwareASTNode
                return AwareASTNode
            from pyoak.node import ASTNode
            return ASTNode
        return getattr(self.mod, self.pre + name)

    def zi_name(self, o) -> str:
        n = type(o).__name__
        return n[len(self.pre):] if self.pre and n.startswith(self.pre) else n

    def prop_value(self, c: str, f: dict, atom: int, variant: int = 0):
        if (c, f["n"]) in P.FIXED:
            return P.FIXED[(c, f["n"])]
        return P.value(self.poolset, f["pool"], atom, variant)

    def kwargs(self, rec: dict, objs: dict[str, Any], variant: int = 0) -> dict:
        c = rec["c"]
        kw = {}
        for f in self.zi.fields(c):
            n = f["n"]
            if f["kind"] == "prop":
                if not f["init"]:
                    continue
                kw[n] = self.prop_value(c, f, rec["p"][n], variant)
            elif f["kind"] in ("tuple", "ftuple"):
                kw[n] = tuple(objs[s] for s in rec["k"][n])
            elif f["kind"] == "list":
                kw[n] = [objs[s] for s in rec["k"][n]]
            else:
                v = rec["k"][n]
                kw[n] = None if v == "none" else objs[v]
        return kw

    def make(self, rec: dict, objs: dict[str, Any], variant: int = 0):
        kw = self.kwargs(rec, objs, variant)
        return self.cls(rec["c"])(**kw, origin=self.origins[rec.get("o", 0)])

    def build(self, h: dict, variant: int = 0) -> dict[str, Any]:
        """Children first: slot numbers are creation order in every generated heap."""
        objs: dict[str, Any] = {}
        for s in slot_order(h):
            objs[s] = self.make(h[s], objs, variant)
        return objs


def norm_fn(x):
    """`{}` / `[]` ambiguity of ToJson: an empty function prints as []."""
    return {} if x == [] else x


def norm_heap(h) -> dict:
    h = norm_fn(h)
    out = {}
    for s, r in h.items():
        out[s] = {"c": r["c"], "p": norm_fn(r.get("p", {})), "k": norm_fn(r.get("k", {})),
                  "o": r.get("o", 0)}
    return out


class Slots:
    """identity map python object -> slot name"""

    def __init__(self, objs: dict[str, Any]):
        self.by_id = {id(o): s for s, o in objs.items()}
        self.objs = objs

    def of(self, o) -> str:
        if o is None:
            return "none"
        return self.by_id.get(id(o), "?foreign")

    def edge(self, ni) -> tuple:
        """NodeTraversalInfo -> abstract edge (n, p, f, i); i = -1 for index None."""
        return (self.of(ni.node), self.of(ni.parent), ni.field.name,
                -1 if ni.findex is None else ni.findex)


def edge_t(e: dict) -> tuple:
    return (e["n"], e["p"], e["f"], e["i"])


def collect():
    gc.collect()
