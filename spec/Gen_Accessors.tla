--------------------------- MODULE Gen_Accessors ---------------------------
(***************************************************************************)
(* C12 generator.  Phase 1 defines a class hierarchy: class 1 derives from *)
(* ASTNode, class j from an earlier class, each declaring a subset (size   *)
(* <= MaxFields) of a field menu in menu order -- the menu contains every  *)
(* field shape, flag combination and re-declarations of inherited names.   *)
(* Phase 2 uses accessors for the first time in every order (Use), which   *)
(* is what makes the library install its generated methods.  Every state   *)
(* of phase 2 is exported: the hierarchy, the order of uses and the        *)
(* expected results of every accessor for every class, flag combination    *)
(* and instance.                                                           *)
(***************************************************************************)
EXTENDS Accessors, Json

CONSTANTS Menu,         \* sequence of fields offered to every class
          NClasses, MaxFields, MaxUses,
          AccNames,      \* accessors whose first use is permuted
          Bases,         \* admissible base choice per class index: "chain" or "any"
          FixedH, FixedOrder   \* a given hierarchy (then only the first-use order is explored), or <<>>

VARIABLES H, order, uses, phase
vars == <<H, order, uses, phase>>

ClassName == <<"GA", "GB", "GC">>

Init == IF FixedOrder = <<>> THEN H = <<>> /\ order = <<>> /\ uses = <<>> /\ phase = "define"
        ELSE H = FixedH /\ order = FixedOrder /\ uses = <<>> /\ phase = "use"

SubSeqs == {S \in SUBSET (1..Len(Menu)) : /\ Cardinality(S) <= MaxFields
                                            /\ \A i, j \in S : Menu[i].n = Menu[j].n => i = j}
FieldsFrom(S) == LET idx == SelectSeq([j \in 1..Len(Menu) |-> j], LAMBDA j : j \in S) IN [j \in 1..Len(idx) |-> Menu[idx[j]]]

Define ==
    /\ phase = "define" /\ Len(order) < NClasses
    /\ LET j == Len(order) + 1
           c == ClassName[j]
           bases == IF j = 1 THEN {"ASTNode"} ELSE IF Bases = "chain" THEN {ClassName[j - 1]} ELSE {ClassName[x] : x \in 1..(j - 1)}
       IN \E b \in bases, S \in SubSeqs :
            /\ H' = (c :> [base |-> b, fields |-> FieldsFrom(S)]) @@ H
            /\ order' = Append(order, c)
    /\ UNCHANGED <<uses, phase>>

Start == phase = "define" /\ Len(order) >= 1 /\ phase' = "use" /\ UNCHANGED <<H, order, uses>>

Use == /\ phase = "use" /\ Len(uses) < MaxUses
       /\ \E c \in DOMAIN H, a \in AccNames :
            /\ <<c, a>> \notin {uses[j] : j \in 1..Len(uses)}
            /\ uses' = Append(uses, <<c, a>>)
       /\ UNCHANGED <<H, order, phase>>

Next == Define \/ Start \/ Use

Flags == [id : BOOLEAN, origin : BOOLEAN, content_id : BOOLEAN, non_compare : BOOLEAN, non_init : BOOLEAN]

(* instances: every child field absent / one node / falsy node; tuples of length 0..2 *)
RECURSIVE InstSpace(_)
InstSpace(fs) ==
    IF fs = <<>> THEN {<<>>}
    ELSE LET f == Head(fs)
             vals == IF f.kind = "tuple" THEN {<<>>, <<"n1">>, <<"f1", "n2">>}
                     ELSE IF f.kind = "opt" THEN {"none", "n1", "f1"}
                     ELSE {"n1", "f1"}
         IN {(f.n :> v) @@ r : v \in vals, r \in InstSpace(Tail(fs))}

ClassCase(c) ==
    [c |-> c, base |-> H[c].base, fields |-> H[c].fields,
     allfields |-> Names(FieldsOf(H, c)),
     child_fields |-> GetChildFields(H, c),
     props |-> {[fl |-> fl, sorted |-> s, res |-> GetProperties(H, c, fl, s)] : fl \in Flags, s \in BOOLEAN},
     prop_fields |-> {[fl |-> fl, res |-> GetPropertyFields(H, c, fl)] : fl \in Flags},
     propdict |-> ToPropertiesDict(H, c),
     insts |-> {[k |-> k,
                 cn |-> ChildNodes(H, [c |-> c, k |-> k], FALSE), cns |-> ChildNodes(H, [c |-> c, k |-> k], TRUE),
                 cwf |-> ChildNodesWithField(H, [c |-> c, k |-> k], FALSE), cwfs |-> ChildNodesWithField(H, [c |-> c, k |-> k], TRUE),
                 icf |-> IterChildFields(H, [c |-> c, k |-> k], FALSE), icfs |-> IterChildFields(H, [c |-> c, k |-> k], TRUE)]
                  : k \in InstSpace(Children(H, c))}]

Case == [m |-> "accessors", order |-> order, uses |-> uses, classes |-> [j \in 1..Len(order) |-> ClassCase(order[j])]]

(* one export per hierarchy (uses = <<>>) in "table" mode; one per use order in "order" mode *)
EmitTable == (phase = "use" /\ uses = <<>>) => PrintT(ToJson(Case))
EmitOrders == (phase = "use" /\ Len(uses) = MaxUses) => PrintT(ToJson(Case))

(* MC: structural facts every hierarchy satisfies *)
Partition == phase = "use" => \A c \in DOMAIN H :
     /\ Len(Props(H, c)) + Len(Children(H, c)) = Len(FieldsOf(H, c))
     /\ \A i, j \in 1..Len(FieldsOf(H, c)) : FieldsOf(H, c)[i].n = FieldsOf(H, c)[j].n => i = j
     /\ H[c].base # "ASTNode" => \A j \in 1..Len(FieldsOf(H, H[c].base)) :       \* inherited first, same positions
            FieldsOf(H, c)[j].n = FieldsOf(H, H[c].base)[j].n
SortedIsPermutation == phase = "use" => \A c \in DOMAIN H :
     {ByName(Props(H, c))[j].n : j \in 1..Len(Props(H, c))} = {Props(H, c)[j].n : j \in 1..Len(Props(H, c))}
=============================================================================
