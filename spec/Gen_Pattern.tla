---------------------------- MODULE Gen_Pattern ----------------------------
(***************************************************************************)
(* C08 case generator over HeapGen: for the newest node of every heap, the *)
(* pattern that describes it exactly (to a depth) and its single-point     *)
(* variations -- class alternatives, per-field spec kinds (any, regex      *)
(* exact / prefix / not-at-start / '.', None, [], nested, sequences one    *)
(* shorter / longer / with tail at every cut, variables), captures at      *)
(* every admissible place -- each with the expected verdict and captures   *)
(* computed by Pattern!Match; plus rule lists for MultiPatternMatcher.     *)
(***************************************************************************)
EXTENDS HeapGen, Pattern, Json

Root == Newest
C == h[Root].c

Re(s, dollar) == [t |-> "re", toks |-> s, dollar |-> dollar]
AnyV == [t |-> "any"]
F(name, spec, cap) == [name |-> name, spec |-> spec, cap |-> cap]
It(v, cap) == [v |-> v, cap |-> cap]
Tree(classes, fields) == [t |-> "tree", classes |-> classes, fields |-> fields]
SeqP(items, tail, tailcap) == [t |-> "seq", items |-> items, tail |-> tail, tailcap |-> tailcap]

RECURSIVE ExactSpec(_, _), ExactTree(_, _)
ExactSpec(v, d) ==
    IF v.k = "atom" THEN (IF AtomType(v) = "none" THEN [t |-> "none"]
                          ELSE IF v.pool \in SimplePools THEN Re(AtomStr(v), TRUE) ELSE AnyV)
    ELSE IF v.k = "none" THEN [t |-> "none"]
    ELSE IF v.k = "node" THEN (IF d = 0 THEN Tree(<<h[v.s].c>>, <<>>) ELSE ExactTree(v.s, d - 1))
    ELSE IF v.ss = <<>> THEN [t |-> "empty"]
    ELSE SeqP([j \in 1..Len(v.ss) |-> It(ExactSpec([k |-> "node", s |-> v.ss[j]], d), "")], FALSE, "")
ExactTree(n, d) ==
    Tree(<<h[n].c>>, [j \in 1..Len(AllFields[h[n].c]) |->
                       F(AllFields[h[n].c][j], ExactSpec(FieldVal(h, n, AllFields[h[n].c][j]), d), "")])

OtherClass == CHOOSE c \in Classes : ~IsSub(C, c)
BaseClass == IF Base[C] = "ASTNode" THEN C ELSE Base[C]

ClassVariants == {<<C>>, <<BaseClass>>, <<"*">>, <<OtherClass>>, <<OtherClass, C>>, <<OtherClass, BaseClass>>,
                  <<BaseClass, OtherClass>>}

(* every blank doubled: a regex that differs from the exact one only in the length of its runs of blanks
   (the same sequence when s has no blank) *)
RECURSIVE Stretch(_)
Stretch(s) == IF s = <<>> THEN <<>>
              ELSE (IF Head(s) = " " THEN <<" ", " ">> ELSE <<Head(s)>>) \o Stretch(Tail(s))

(* specs tried for the field f of the root, whose value is v *)
SpecVariants(f, v) ==
    {AnyV, [t |-> "none"], [t |-> "empty"], ExactSpec(v, 1)}
    \cup (IF v.k = "atom" /\ v.pool \in SimplePools /\ AtomType(v) # "none" /\ Len(AtomStr(v)) > 0
          THEN LET s == AtomStr(v) IN
               {Re(s, FALSE), Re(SubSeq(s, 1, 1), FALSE), Re(SubSeq(s, 1, 1), TRUE), Re(SubSeq(s, Len(s), Len(s)), FALSE),
                Re(<<".">>, FALSE), Re(s \o <<".">>, FALSE), Re(<<"q">>, FALSE),
                Re(Stretch(s), TRUE), Re(Stretch(s), FALSE)}
          ELSE {})
    \cup (IF v.k = "node" THEN {Tree(<<"*">>, <<>>), Tree(<<OtherClass>>, <<>>), ExactSpec(v, 0), Re(<<".">>, FALSE)} ELSE {})
    \cup (IF v.k = "tuple" THEN
            LET L == Len(v.ss)
                ex == [j \in 1..L |-> It(ExactSpec([k |-> "node", s |-> v.ss[j]], 0), "")]
                anyi == It(Tree(<<"*">>, <<>>), "")
            IN {SeqP(ex, FALSE, ""), SeqP(Append(ex, anyi), FALSE, ""), SeqP(Append(ex, anyi), TRUE, ""),
                SeqP(<<anyi>>, FALSE, ""), SeqP(<<>>, TRUE, ""), SeqP(<<>>, TRUE, "rest")}
               \cup {SeqP(SubSeq(ex, 1, cut), TRUE, "rest") : cut \in 0..L}
               \cup {SeqP([j \in 1..L |-> It(ex[j].v, IF j = 1 THEN "first" ELSE "")], FALSE, "")}
               \cup (IF L >= 2 THEN {SeqP(<<It(Tree(<<"*">>, <<>>), "first"), It([t |-> "var", name |-> "first"], "")>>
                                            \o [j \in 1..(L - 2) |-> anyi], FALSE, ""),
                                     SeqP(SubSeq(ex, 1, L - 1), FALSE, "")}
                     ELSE {})
          ELSE {})

Own == UNION {{Tree(<<C>>, <<F(f, sp, cap)>>) : sp \in SpecVariants(f, FieldVal(h, Root, f)), cap \in {"", "cap"}}
                : f \in Range(AllFields[C])}
Missing == {Tree(<<C>>, <<F("nofield", AnyV, "")>>), Tree(<<"*">>, <<F("nofield", AnyV, "cap")>>)}
ClassPs == {Tree(cs, <<>>) : cs \in ClassVariants}
(* two fields: capture on the first, variable on the second *)
Vars == UNION {{Tree(<<C>>, <<F(f, AnyV, "v"), F(g, [t |-> "var", name |-> "v"], "w")>>) : g \in Range(AllFields[C])}
                 : f \in Range(AllFields[C])}
Whole == {ExactTree(Root, 1), ExactTree(Root, 2)}

Patterns == Own \cup Missing \cup ClassPs \cup Vars \cup Whole

PCase(p) == [p |-> p, res |-> Match(p, h, Root)]

(* rule lists: the exact pattern, a never-matching one and a capture-all one in every order *)
R1 == ExactTree(Root, 1)
R2 == Tree(<<OtherClass>>, <<>>)
R3 == Tree(<<"*">>, <<>>)
RuleLists == {<<R1, R2, R3>>, <<R2, R3, R1>>, <<R3, R1, R2>>, <<R2>>, <<R2, R1>>}
MCase(rs) == [rules |-> rs, res |-> Multi(rs, h, Root)]

Case == [m |-> "pattern", h |-> h, root |-> Root,
         pats |-> {PCase(p) : p \in Patterns},
         multi |-> {MCase(rs) : rs \in RuleLists}]

EmitInv == NObj > 0 => PrintT(ToJson(Case))

(* MC: the exact pattern matches its node; every generated pattern is well formed; Multi returns the first *)
ExactMatches == NObj > 0 => Match(ExactTree(Root, 2), h, Root).ok
AllWellFormed == NObj > 0 => \A p \in Patterns : WellFormed(p)
MultiFirst == NObj > 0 => \A rs \in RuleLists :
      LET r == Multi(rs, h, Root) IN
      /\ r.rule # 0 => Match(rs[r.rule], h, Root).ok /\ \A j \in 1..(r.rule - 1) : ~Match(rs[j], h, Root).ok
      /\ r.rule = 0 => \A j \in 1..Len(rs) : ~Match(rs[j], h, Root).ok
=============================================================================
