------------------------------- MODULE SerOpts -------------------------------
(***************************************************************************)
(* C16: serialization options live in process-global state that every      *)
(* (de)serialization call sets at its beginning and must clear at its end, *)
(* also when the call fails part-way.  One call visits NObj nested objects *)
(* (Emit); a failing call raises at nested object `fail`.                  *)
(*                                                                         *)
(*   Begin(kind, opts, fail)   options merged into the global store        *)
(*   Emit                      a nested object is (de)serialized: it sees  *)
(*                             whatever is in the store                    *)
(*   Fail                      the call raises at object `fail`            *)
(*   End                       the call returns                            *)
(* ResetOnDeser / ResetInFinally = TRUE is the code; setting one to FALSE  *)
(* models the calibration mutants (TLC then finds Clean / Sees violated).  *)
(***************************************************************************)
EXTENDS Naturals, Sequences, FiniteSets, TLC

CONSTANTS OptSets,        \* the option subsets a call may be given
          NObj, MaxCalls,
          ResetOnDeser, ResetInFinally

VARIABLES store,   \* the process-global option store
          cur,     \* the running call [kind, opts, fail] or Idle
          pos,     \* next nested object of the running call
          seen,    \* what each nested object of the running call saw
          hist     \* completed calls: [kind, opts, fail, seen, outcome]
vars == <<store, cur, pos, seen, hist>>

Idle == [kind |-> "idle", opts |-> {}, fail |-> 0]

Init == store = {} /\ cur = Idle /\ pos = 0 /\ seen = <<>> /\ hist = <<>>

Begin == /\ cur = Idle /\ Len(hist) < MaxCalls
         /\ \E kind \in {"ser", "deser"}, o \in OptSets, f \in 0..NObj :
              /\ cur' = [kind |-> kind, opts |-> o, fail |-> f]
              /\ store' = store \cup o
              /\ pos' = 1 /\ seen' = <<>> /\ hist' = hist

Emit == /\ cur # Idle /\ pos <= NObj /\ cur.fail # pos
        /\ seen' = Append(seen, store) /\ pos' = pos + 1
        /\ UNCHANGED <<store, cur, hist>>

Fail == /\ cur # Idle /\ cur.fail = pos
        /\ store' = IF ResetInFinally /\ (cur.kind = "ser" \/ ResetOnDeser) THEN {} ELSE store
        /\ hist' = Append(hist, [kind |-> cur.kind, opts |-> cur.opts, fail |-> cur.fail, seen |-> seen, outcome |-> "raised"])
        /\ cur' = Idle /\ pos' = 0 /\ seen' = <<>>

End == /\ cur # Idle /\ pos > NObj
       /\ store' = IF cur.kind = "ser" \/ ResetOnDeser THEN {} ELSE store
       /\ hist' = Append(hist, [kind |-> cur.kind, opts |-> cur.opts, fail |-> cur.fail, seen |-> seen, outcome |-> "returned"])
       /\ cur' = Idle /\ pos' = 0 /\ seen' = <<>>

Next == Begin \/ Emit \/ Fail \/ End

(* options apply to nothing after the call *)
Clean == cur = Idle => store = {}
(* ... and to every nested object of the call: each one sees exactly the call's options *)
Sees == /\ \A j \in 1..Len(seen) : seen[j] = cur.opts
        /\ \A c \in 1..Len(hist) : \A j \in 1..Len(hist[c].seen) : hist[c].seen[j] = hist[c].opts
=============================================================================
