------------------------------- MODULE Typing -------------------------------
(***************************************************************************)
(* C11 / C13: field annotations and values as terms in prefix notation     *)
(* (sequences of strings, so that sets of terms are homogeneous for TLC).  *)
(*                                                                         *)
(* annotation ::= leaf | op arg...                                         *)
(*   leaves   int str float bool none any lit enum GN GM   (GN: a node     *)
(*            class, GM: a subclass of it, lit: Literal["a", 1],           *)
(*            enum: an Enum class)                                         *)
(*   unary    newtype tuplev frozenset seq mapping list dict set           *)
(*            (mapping / dict: the key type is str, the argument is the    *)
(*            value type; tuplev: tuple[X, ...])                           *)
(*   binary   union2 tuplef2            ternary  union3                    *)
(* Optional[X] is union2 X none; the two union spellings, forward          *)
(* references and postponed evaluation are renderings of the same term.    *)
(*                                                                         *)
(* Classify: "child" iff the annotation is a node class, a union of node   *)
(* classes optionally with None, or a fixed / variadic tuple whose         *)
(* elements are node classes or unions of node classes (NewType of such    *)
(* included); "prop" iff it mentions no node class and no mutable          *)
(* collection; "reject" otherwise.                                         *)
(***************************************************************************)
EXTENDS Sequences, Naturals, FiniteSets, TLC

Leaves == {"int", "str", "float", "bool", "none", "any", "lit", "enum", "GN", "GM"}
Unary == {"newtype", "tuplev", "frozenset", "seq", "mapping", "list", "dict", "set"}
Binary == {"union2", "tuplef2"}
Ternary == {"union3"}
Mutable == {"list", "dict", "set"}
NodeLeaves == {"GN", "GM"}

Arity(op) == IF op \in Unary THEN 1 ELSE IF op \in Binary THEN 2 ELSE IF op \in Ternary THEN 3 ELSE 0

(* all terms of depth <= d; a binary / ternary constructor has at most one non-leaf argument *)
RECURSIVE TermsOver(_, _)
TermsOver(d, LS) ==
    IF d = 0 THEN {<<l>> : l \in LS}
    ELSE LET S == TermsOver(d - 1, LS)
             L == {<<l>> : l \in LS}
         IN S \cup {<<op>> \o t : op \in Unary, t \in S}
              \cup {<<op>> \o t \o u : op \in Binary, t \in S, u \in L}
              \cup {<<op>> \o t \o u : op \in Binary, t \in L, u \in S}
              \cup {<<"union3">> \o t \o u \o v : t \in L, u \in L, v \in L}
Terms(d) == TermsOver(d, Leaves)

(* analysis of the sub-term starting at position i: a record of facts plus the next position
     node  a node class occurs somewhere          mut  a mutable collection occurs somewhere
     ref   the term is a node class (or a NewType chain over one)
     isU   the term is a union;  nn / sn / hn: all (flattened) members are node classes or None /
           some member is a node class / some member is None
     child the term is an admissible child annotation *)
RECURSIVE An(_, _)
An(s, i) ==
    LET op == s[i] IN
    IF op \in Leaves
    THEN [next |-> i + 1, node |-> op \in NodeLeaves, mut |-> FALSE, ref |-> op \in NodeLeaves, isU |-> FALSE,
          nn |-> op \in NodeLeaves \/ op = "none", sn |-> op \in NodeLeaves, hn |-> op = "none",
          child |-> op \in NodeLeaves]
    ELSE IF op \in Unary
    THEN LET a == An(s, i + 1) IN
         [next |-> a.next, node |-> a.node, mut |-> a.mut \/ op \in Mutable,
          ref |-> op = "newtype" /\ a.ref, isU |-> FALSE,
          nn |-> op = "newtype" /\ a.ref, sn |-> op = "newtype" /\ a.ref, hn |-> FALSE,
          child |-> \/ op = "newtype" /\ a.child
                    \/ op = "tuplev" /\ (a.ref \/ (a.isU /\ a.nn /\ a.sn /\ ~a.hn))]
    ELSE LET a == An(s, i + 1)
             b == An(s, a.next)
             c == IF op = "union3" THEN An(s, b.next) ELSE b
             args == IF op = "union3" THEN <<a, b, c>> ELSE <<a, b>>
             isU == op \in {"union2", "union3"}
             nn == isU /\ \A j \in 1..Len(args) : args[j].nn
             sn == isU /\ \E j \in 1..Len(args) : args[j].sn
             hn == isU /\ \E j \in 1..Len(args) : args[j].hn
         IN [next |-> c.next,
             node |-> \E j \in 1..Len(args) : args[j].node,
             mut |-> \E j \in 1..Len(args) : args[j].mut,
             ref |-> FALSE, isU |-> isU, nn |-> nn, sn |-> sn, hn |-> hn,
             child |-> \/ isU /\ nn /\ sn
                       \/ op = "tuplef2" /\ \A j \in 1..2 : args[j].ref \/ (args[j].isU /\ args[j].nn /\ args[j].sn /\ ~args[j].hn)]

Classify(t) == LET a == An(t, 1) IN
               IF a.child THEN "child" ELSE IF ~a.node /\ ~a.mut THEN "prop" ELSE "reject"

WellFormedTerm(t) == An(t, 1).next = Len(t) + 1

---------------------------------------------------------------------------
(* C13 values, also in prefix notation:
     vTrue vFalse v0 v1 vflt vstr vstrb vNone vRed vgn vgm vleaf   atomic
     tup0 | tup1 x | tup2 x y | lst1 x | fs1 x                     containers *)
VLeaves == {"vTrue", "vFalse", "v0", "v1", "vflt", "vstr", "vstra", "vNone", "vRed", "vgn", "vgm"}
VArity(op) == IF op \in {"tup1", "lst1", "fs1"} THEN 1 ELSE IF op = "tup2" THEN 2 ELSE IF op = "tup3" THEN 3 ELSE 0

RECURSIVE VNext(_, _)
VNext(v, i) == LET n == VArity(v[i]) IN
               IF n = 0 THEN i + 1 ELSE IF n = 1 THEN VNext(v, i + 1)
               ELSE IF n = 2 THEN VNext(v, VNext(v, i + 1)) ELSE VNext(v, VNext(v, VNext(v, i + 1)))

(* Conf(v, i, t, j): the value at v[i..] conforms to the annotation at t[j..] *)
RECURSIVE Conf(_, _, _, _)
Conf(v, i, t, j) ==
    LET x == v[i]
        op == t[j]
    IN CASE op = "any" -> TRUE
         [] op = "bool" -> x \in {"vTrue", "vFalse"}
         [] op = "int" -> x \in {"v0", "v1"}                      \* bool values do not conform to int
         [] op = "float" -> x \in {"v0", "v1", "vflt"}            \* ints are acceptable for float
         [] op = "str" -> x \in {"vstr", "vstra"}
         [] op = "none" -> x = "vNone"
         [] op = "enum" -> x = "vRed"
         [] op = "lit" -> x \in {"vstra", "v1"}                   \* Literal["a", 1]
         [] op = "GN" -> x \in {"vgn", "vgm"}                     \* by instance: GM is a subclass of GN
         [] op = "GM" -> x = "vgm"
         [] op = "newtype" -> Conf(v, i, t, j + 1)
         [] op = "union2" -> Conf(v, i, t, j + 1) \/ Conf(v, i, t, An(t, j + 1).next)
         [] op = "union3" -> \/ Conf(v, i, t, j + 1)
                             \/ Conf(v, i, t, An(t, j + 1).next)
                             \/ Conf(v, i, t, An(t, An(t, j + 1).next).next)
         [] op = "tuplev" -> \/ x = "tup0"
                             \/ x = "tup1" /\ Conf(v, i + 1, t, j + 1)
                             \/ x = "tup2" /\ Conf(v, i + 1, t, j + 1) /\ Conf(v, VNext(v, i + 1), t, j + 1)
                             \/ x = "tup3" /\ Conf(v, i + 1, t, j + 1) /\ Conf(v, VNext(v, i + 1), t, j + 1)
                                           /\ Conf(v, VNext(v, VNext(v, i + 1)), t, j + 1)
         [] op = "tuplef2" -> x = "tup2" /\ Conf(v, i + 1, t, j + 1) /\ Conf(v, VNext(v, i + 1), t, An(t, j + 1).next)
         [] op = "frozenset" -> x = "fs1" /\ Conf(v, i + 1, t, j + 1)
         [] op = "seq" -> \/ x = "tup0"
                          \/ x = "lst1" /\ Conf(v, i + 1, t, j + 1)
                          \/ x = "tup1" /\ Conf(v, i + 1, t, j + 1)
                          \/ x = "tup2" /\ Conf(v, i + 1, t, j + 1) /\ Conf(v, VNext(v, i + 1), t, j + 1)
                          \/ x = "tup3" /\ Conf(v, i + 1, t, j + 1) /\ Conf(v, VNext(v, i + 1), t, j + 1)
                                        /\ Conf(v, VNext(v, VNext(v, i + 1)), t, j + 1)
         [] OTHER -> FALSE
Conforms(v, t) == Conf(v, 1, t, 1)

(* pairs the statement leaves open and the check therefore does not compare: a bool value against
   an annotation mentioning float; a value that is == to a literal member but of another type *)
Mentions(t, what) == \E j \in 1..Len(t) : t[j] = what
Unspecified(v, t) == \/ ((Mentions(v, "vTrue") \/ Mentions(v, "vFalse")) /\ (Mentions(t, "float") \/ Mentions(t, "lit")))
                     \/ Mentions(t, "mapping")
                     \/ (Mentions(t, "seq") /\ (Mentions(v, "vstr") \/ Mentions(v, "vstra")))
=============================================================================
