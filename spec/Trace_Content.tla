---------------------------- MODULE Trace_Content ----------------------------
(***************************************************************************)
(* code -> spec for C01 / C02: each line records, for two nodes a, b of a  *)
(* real forest (abstracted by alpha), what the library answered for        *)
(* content_id equality, is_equal (both argument orders), ==, != ; the line *)
(* is accepted iff the answers are the ones CEq / Eq of module Heap give.  *)
(***************************************************************************)
EXTENDS Heap, Json, IOUtils, TLCExt

Lines == ndJsonDeserialize(IOEnv.TRACE_FILE)
VARIABLE l

AcceptC01(c) == LET e == CEq(c.h, c.a, c.h, c.b) IN
                  /\ c.cid_eq = e
                  /\ c.iseq_ab = e
                  /\ c.iseq_ba = e
AcceptC02(c) == LET e == Eq(c.h, c.a, c.h, c.b) IN
                  /\ c.eq_ab = e
                  /\ c.eq_ba = e
                  /\ c.ne_ab = ~e
                  /\ c.hash_stable

Clauses(c) == (IF AcceptC01(c) THEN {} ELSE {"C01"}) \cup (IF AcceptC02(c) THEN {} ELSE {"C02"})

Init == l = 1 /\ TLCSet(1, {})
Next == /\ l <= Len(Lines)
        /\ LET bad == Clauses(Lines[l]) IN
           IF bad = {} THEN TRUE
           ELSE TLCSet(1, TLCGet(1) \cup {l}) /\ PrintT(ToJson([rej |-> l, info |-> <<bad>>]))
        /\ l' = l + 1
Done == PrintT(ToJson([rejected_total |-> Cardinality(TLCGet(1))])) /\ TLCGet(1) = {} /\ TLCGet("stats").diameter - 1 = Len(Lines)
=============================================================================
