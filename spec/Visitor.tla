------------------------------ MODULE Visitor ------------------------------
(***************************************************************************)
(* C09: visitor dispatch and ASTTransformVisitor.transform as pure         *)
(* operators with identity bookkeeping.                                    *)
(*                                                                         *)
(* A rule set maps some class names to a rule kind:                        *)
(*   "keep"     visit_X returns generic_visit(node)  (children transformed)*)
(*   "rewrite"  children transformed, then a new node with one property    *)
(*              changed (or a plain copy when the class has no init prop)  *)
(*   "replace"  returns a prepared, existing node (children not visited)   *)
(*   "remove"   returns None                                               *)
(*   "raise"    raises                                                     *)
(* A result is a term:  [t |-> "same", s]  the very same object s          *)
(*                      [t |-> "none"]      removed                        *)
(*                      [t |-> "new", src, p, k]  a new node derived from  *)
(*                        src with properties p and child terms k          *)
(***************************************************************************)
EXTENDS Heap

(* which visit_ method runs for a node of class c: the class name or "generic" *)
Dispatch(c, methods, strict) ==
    IF strict THEN (IF c \in methods THEN c ELSE "generic")
    ELSE LET m == Mro(c)
             hits == {j \in 1..Len(m) : m[j] \in methods}
         IN IF hits = {} THEN "generic" ELSE m[CHOOSE j \in hits : \A k \in hits : j <= k]

RuleOf(h, n, rules, strict) ==
    LET d == Dispatch(h[n].c, DOMAIN rules, strict) IN IF d = "generic" THEN "keep" ELSE rules[d]

Same(s) == [t |-> "same", s |-> s]
None == [t |-> "none"]
IsSameAs(term, s) == term.t = "same" /\ term.s = s

(* the property a "rewrite" rule changes: first init property, atom + 1 modulo 3; none if no init prop *)
InitProps(c) == SelectSeq(PropFields[c], LAMBDA f : IsInit[c][f])
Rewritten(c, p) == IF InitProps(c) = <<>> THEN p
                   ELSE [p EXCEPT ![InitProps(c)[1]] = (p[InitProps(c)[1]] + 1) % 3]

RECURSIVE Raises(_, _, _, _)
Raises(h, n, rules, strict) ==
    LET r == RuleOf(h, n, rules, strict) IN
    \/ r = "raise"
    \/ r \in {"keep", "rewrite"} /\ \E j \in 1..Len(Kids(h, n)) : Raises(h, Kids(h, n)[j].n, rules, strict)

RECURSIVE Tr(_, _, _, _, _)
Tr(h, n, rules, strict, prepared) ==       \* assumes ~Raises
    LET r == RuleOf(h, n, rules, strict)
        c == h[n].c
        \* generic_visit: children transformed field by field
        kidterm(f) == LET v == h[n].k[f] IN
                      IF IsSeqKind(Kind[c][f])
                      THEN SelectSeq([j \in 1..Len(v) |-> Tr(h, v[j], rules, strict, prepared)], LAMBDA x : x.t # "none")
                      ELSE IF v = NoSlot THEN None ELSE Tr(h, v, rules, strict, prepared)
        unchanged(f) == LET v == h[n].k[f] IN
                        IF IsSeqKind(Kind[c][f])
                        THEN Len(kidterm(f)) = Len(v) /\ \A j \in 1..Len(v) : IsSameAs(kidterm(f)[j], v[j])
                        ELSE IF v = NoSlot THEN TRUE ELSE IsSameAs(kidterm(f), v)
        allsame == \A j \in 1..Len(ChildFields[c]) : unchanged(ChildFields[c][j])
        \* only changed fields are replaced; an unchanged field keeps the very same value object
        kterms == [f \in Range(ChildFields[c]) |->
                      IF unchanged(f) THEN [t |-> "field-same"] ELSE [t |-> "field-new", v |-> kidterm(f)]]
        G == IF allsame THEN Same(n) ELSE [t |-> "new", src |-> n, p |-> h[n].p, k |-> kterms]
    IN IF r = "keep" THEN G
       ELSE IF r = "rewrite"
            THEN [t |-> "new", src |-> n, p |-> Rewritten(c, h[n].p),
                  k |-> IF allsame THEN [f \in Range(ChildFields[c]) |-> [t |-> "field-same"]] ELSE kterms]
       ELSE IF r = "replace" THEN Same(prepared)
       ELSE None

Transform(h, n, rules, strict, prepared) ==
    IF Raises(h, n, rules, strict) THEN [t |-> "raise"] ELSE Tr(h, n, rules, strict, prepared)

(* a result term contains a change below/at its root *)
Changed(term, n) == ~IsSameAs(term, n)
=============================================================================
