------------------------------- MODULE Heap -------------------------------
(***************************************************************************)
(* Abstract heaps of pyoak nodes and the declarative meaning of the        *)
(* observations the properties talk about: content equality (C01), full    *)
(* equality (C02), child enumeration (C05/C12), traversal orders (C05).    *)
(*                                                                         *)
(* A heap h is a function from slots to records                            *)
(*     [c |-> class, p |-> [prop |-> atom], k |-> [child field |-> v],     *)
(*      o |-> origin atom]                                                 *)
(* where v is a slot or NoSlot for single fields and a tuple of slots for  *)
(* tuple fields.  Atoms are naturals: two property values are "equal       *)
(* values of equal types" iff their atoms are equal (the concretization    *)
(* pools on the Python side guarantee it).  Operators dispatch on the kind *)
(* of a field taken from the zoo table, never on the shape of a value.     *)
(* Everything here is written from the property statements, not from the   *)
(* library's algorithms.                                                   *)
(***************************************************************************)
EXTENDS Zoo, Integers, FiniteSets

NoSlot == "none"

Range(s) == {s[i] : i \in DOMAIN s}

RECURSIVE Mro(_)
Mro(c) == IF c = "ASTNode" THEN <<"ASTNode">> ELSE <<c>> \o Mro(Base[c])

IsSub(c, d) == d \in Range(Mro(c))

IsSeqKind(k) == k \in {"tuple", "ftuple", "list"}

RECURSIVE Flatten(_)
Flatten(ss) == IF ss = <<>> THEN <<>> ELSE Head(ss) \o Flatten(Tail(ss))

(* children of o stored in field f, as records [n, f, i]; i = -1 stands for "index None" *)
FieldKids(h, o, f) ==
    LET kd == Kind[h[o].c][f]
        v  == h[o].k[f]
    IN IF IsSeqKind(kd)
       THEN [j \in 1..Len(v) |-> [n |-> v[j], f |-> f, i |-> j - 1]]
       ELSE IF v = NoSlot THEN <<>> ELSE <<[n |-> v, f |-> f, i |-> 0 - 1]>>

KidsIn(h, o, fields) == Flatten([j \in 1..Len(fields) |-> FieldKids(h, o, fields[j])])

(* direct children in declaration order / in field-name order *)
Kids(h, o)       == KidsIn(h, o, ChildFields[h[o].c])
KidsSorted(h, o) == KidsIn(h, o, ChildFieldsSorted[h[o].c])

(* an edge is what a traversal yields: <<node, parent, field, index>> (index -1 = None) *)
Edge(o, kid) == <<kid.n, o, kid.f, kid.i>>
EN(e) == e[1]
EP(e) == e[2]
EF(e) == e[3]
EI(e) == e[4]
Edges(h, o) == LET ks == Kids(h, o) IN [j \in 1..Len(ks) |-> Edge(o, ks[j])]

RECURSIVE Reach(_, _)
Reach(h, o) == {o} \cup UNION {Reach(h, Kids(h, o)[j].n) : j \in 1..Len(Kids(h, o))}

ReachAll(h, S) == UNION {Reach(h, o) : o \in S}

---------------------------------------------------------------------------
(* C01: structural content equality, possibly across two heaps *)

RECURSIVE CEq(_, _, _, _)
CEq(h1, a, h2, b) ==
    /\ h1[a].c = h2[b].c
    /\ LET c == h1[a].c IN
       /\ \A j \in 1..Len(PropFields[c]) :
            LET f == PropFields[c][j] IN Compare[c][f] => h1[a].p[f] = h2[b].p[f]
       /\ \A j \in 1..Len(ChildFields[c]) :
            LET f == ChildFields[c][j]
                v1 == h1[a].k[f]
                v2 == h2[b].k[f]
            IN IF IsSeqKind(Kind[c][f])
               THEN /\ Len(v1) = Len(v2)
                    /\ \A x \in 1..Len(v1) : CEq(h1, v1[x], h2, v2[x])
               ELSE IF v1 = NoSlot \/ v2 = NoSlot
                    THEN v1 = NoSlot /\ v2 = NoSlot
                    ELSE CEq(h1, v1, h2, v2)

(* is_equal additionally asks for the same class, which CEq already contains *)
IsEqual(h1, a, h2, b) == CEq(h1, a, h2, b)

(* C02: == is content equality plus equal origins at every corresponding position *)
RECURSIVE OrgEq(_, _, _, _)
OrgEq(h1, a, h2, b) ==   \* only evaluated when CEq holds, so the shapes agree
    /\ h1[a].o = h2[b].o
    /\ LET ka == Kids(h1, a)
           kb == Kids(h2, b)
       IN \A j \in 1..Len(ka) : OrgEq(h1, ka[j].n, h2, kb[j].n)

Eq(h1, a, h2, b) == CEq(h1, a, h2, b) /\ OrgEq(h1, a, h2, b)

---------------------------------------------------------------------------
(* C05: traversal orders.  prune and filter are sets of edges.  *)

RECURSIVE PreFrom(_, _, _)
PreFrom(h, es, prune) ==      \* pre-order of the edge list es and everything below
    IF es = <<>> THEN <<>>
    ELSE LET e == Head(es) IN
         <<e>> \o (IF e \in prune THEN <<>> ELSE PreFrom(h, Edges(h, EN(e)), prune))
               \o PreFrom(h, Tail(es), prune)

RECURSIVE PostFrom(_, _, _)
PostFrom(h, es, prune) ==
    IF es = <<>> THEN <<>>
    ELSE LET e == Head(es) IN
         (IF e \in prune THEN <<>> ELSE PostFrom(h, Edges(h, EN(e)), prune))
               \o <<e>> \o PostFrom(h, Tail(es), prune)

(* all edges offered to the predicates, in pre-order *)
Pre(h, o, prune)  == PreFrom(h, Edges(h, o), prune)
Post(h, o, prune) == PostFrom(h, Edges(h, o), prune)

Keep(es, flt) == SelectSeq(es, LAMBDA e : e \in flt)

NextLevel(h, lvl, prune) ==
    Flatten([j \in 1..Len(lvl) |-> IF lvl[j] \in prune THEN <<>> ELSE Edges(h, EN(lvl[j]))])

RECURSIVE LevelsFrom(_, _, _)
LevelsFrom(h, lvl, prune) ==
    IF lvl = <<>> THEN <<>> ELSE lvl \o LevelsFrom(h, NextLevel(h, lvl, prune), prune)

Bfs(h, o, prune) == LevelsFrom(h, Edges(h, o), prune)

(* every edge below o (no pruning): the universe the predicates range over *)
AllEdges(h, o) == Range(Pre(h, o, {}))

(* gather: pre-order restricted to instances / exact classes, then the extra filter *)
Gather(h, o, classes, exact, extra, prune) ==
    LET ok(e) == /\ IF exact THEN h[EN(e)].c \in classes
                              ELSE \E d \in classes : IsSub(h[EN(e)].c, d)
                 /\ e \in extra
        s == SelectSeq(Pre(h, o, prune), ok)
    IN [j \in 1..Len(s) |-> EN(s[j])]

=============================================================================
