------------------------ MODULE Trace_LegacyMachine ------------------------
(***************************************************************************)
(* code -> spec for the legacy machine (C18 / C19): every line is one      *)
(* observed transition of the real classes: the full pre-state (objects    *)
(* with their stored ids and upward links, and the registry), the          *)
(* operation, the digest the library computes for a new node, the outcome  *)
(* and the full post-state.  Legacy.tla's Apply is evaluated on the        *)
(* pre-state; the line is accepted iff outcome and post-state are exactly  *)
(* the predicted ones.  The verdict printed per line:                      *)
(*    conform   TRUE / FALSE                                               *)
(*    partial   the model's error came out of the attach phase (the named  *)
(*              deviation partial-attach-effects)                          *)
(*    diff      the (node, component) pairs that differ (diagnostics)      *)
(* Cached content ids are compared through `cidok` (cached = content id of *)
(* an equal fresh tree), and only on lines whose pre-state has no stale    *)
(* cache, because a stale digest has no preimage the model could name.     *)
(***************************************************************************)
EXTENDS Legacy, Json, IOUtils, TLCExt
Lines == ndJsonDeserialize(IOEnv.TRACE_FILE)
VARIABLE l

Modelled == {"create", "attach", "detach", "detach_self", "replace_prop", "replace_kids", "replace_bad",
             "replace_with", "replace_with_none", "duplicate", "texec", "tvisit"}

Raw(L, objs, reg) == [obj |-> objs, reg |-> reg]
WithCids(S0, objs) ==
    [S0 EXCEPT !.obj = [n \in DOMAIN objs |->
        [c |-> objs[n].c, p |-> objs[n].p, k |-> objs[n].k, o |-> objs[n].o, id |-> objs[n].id, oid |-> objs[n].oid,
         coll |-> objs[n].coll, pid |-> objs[n].pid, pf |-> objs[n].pf, pi |-> objs[n].pi,
         cid |-> IF objs[n].cidok THEN FreshCid(S0, n, Cardinality(DOMAIN objs) + 1) ELSE "stale:" \o n]]]
PreState(L) == WithCids(Raw(L, L.pre, L.regpre), L.pre)

Comps == {"c", "p", "k", "id", "oid", "coll", "pid", "pf", "pi"}
Get(r, x) == CASE x = "c" -> r.c [] x = "p" -> r.p [] x = "k" -> r.k [] x = "id" -> r.id [] x = "oid" -> r.oid
               [] x = "coll" -> r.coll [] x = "pid" -> r.pid [] x = "pf" -> r.pf [] x = "pi" -> r.pi

Diff(L, r) ==
    LET P == r.S
        O == L.post
        both == DOMAIN P.obj \cap DOMAIN O
        allok == \A n \in DOMAIN L.pre : L.pre[n].cidok
    IN (IF Outcome(r) = L.outcome THEN {} ELSE {<<"outcome", Outcome(r)>>})
       \cup {<<n, "missing-in-code">> : n \in (DOMAIN P.obj) \ DOMAIN O}
       \cup {<<n, "missing-in-model">> : n \in (DOMAIN O) \ DOMAIN P.obj}
       \cup {<<n, x>> \in both \X Comps : Get(P.obj[n], x) # Get(O[n], x)}
       \cup (IF DOMAIN P.reg = DOMAIN L.regpost /\ \A i \in DOMAIN P.reg : P.reg[i] = L.regpost[i] THEN {} ELSE {<<"registry", "registry">>})
       \cup (IF allok THEN {<<n, "cidok">> : n \in {m \in both : (P.obj[m].cid = FreshCid(P, m, Cardinality(DOMAIN P.obj) + 1)) # O[m].cidok}}
             ELSE {})

Verdict(L) ==
    IF L.op.op \notin Modelled THEN [skip |-> TRUE]
    ELSE LET r == Apply(PreState(L), L.op, L.nm, L.d)
             df == Diff(L, r)
         IN [skip |-> FALSE, conform |-> df = {}, partial |-> r.partial, diff |-> df]

Init == l = 1 /\ TLCSet(1, {})
Next == /\ l <= Len(Lines)
        /\ LET v == Verdict(Lines[l]) IN
           IF v.skip THEN TRUE
           ELSE IF v.conform /\ ~v.partial THEN TRUE
           ELSE TLCSet(1, TLCGet(1) \cup {l}) /\ PrintT(ToJson([rej |-> l, info |-> <<v.conform, v.partial, v.diff>>]))
        /\ l' = l + 1
Done == PrintT(ToJson([rejected_total |-> Cardinality(TLCGet(1))])) /\ TLCGet("stats").diameter - 1 = Len(Lines)
=============================================================================
