------------------------------ MODULE HeapGen ------------------------------
(***************************************************************************)
(* Generator of abstract heaps: every heap over the zoo is built bottom-up *)
(* by `New` actions, exactly like a user program builds trees (children    *)
(* first).  All tree-input properties enumerate their inputs with this     *)
(* module; a property module adds an `EmitInv` that prints one JSON case   *)
(* (input + expected observation computed by the oracles) per new state.   *)
(***************************************************************************)
EXTENDS Choices

CONSTANTS MaxObjs      \* number of objects in a heap

VARIABLE h

SlotName == <<"s1", "s2", "s3", "s4", "s5", "s6", "s7", "s8", "s9">>

NObj == Cardinality(DOMAIN h)
Newest == SlotName[NObj]

New(c) ==
    /\ NObj < MaxObjs
    /\ \E r \in Ctor(h, c) : h' = h @@ (SlotName[NObj + 1] :> r)

Init == h = <<>>
Next == \E c \in GenClasses : New(c)

=============================================================================
