------------------------------ MODULE HeapGen ------------------------------
(***************************************************************************)
(* Generator of abstract heaps: every heap over the zoo is built bottom-up *)
(* by `New` actions, exactly like a user program builds trees (children    *)
(* first).  All tree-input properties enumerate their inputs with this     *)
(* module; a property module adds an `EmitInv` that prints one JSON case   *)
(* (input + expected observation computed by the oracles) per new state.   *)
(***************************************************************************)
EXTENDS Heap

CONSTANTS MaxObjs,      \* number of objects in a heap
          MaxTuple,     \* longest variadic tuple built
          GenClasses,   \* classes instantiated by this run
          Origins       \* origin atoms

(* PropAtoms(c, f): the atoms tried for property f of class c -- defined by the instance module *)
CONSTANT PropAtoms(_, _)

VARIABLE h

SlotName == <<"s1", "s2", "s3", "s4", "s5", "s6", "s7", "s8", "s9">>

NObj == Cardinality(DOMAIN h)
Newest == SlotName[NObj]

SlotsOf(allowed) == {s \in DOMAIN h : h[s].c \in allowed}

KidChoices(c, f) ==
    LET kd == Kind[c][f] IN
    IF kd = "one" THEN SlotsOf(Allowed[c][f])
    ELSE IF kd = "opt" THEN SlotsOf(Allowed[c][f]) \cup {NoSlot}
    ELSE IF kd = "tuple"
         THEN UNION {[1..len -> SlotsOf(Allowed[c][f])] : len \in 0..MaxTuple}
    ELSE {t \in [1..Len(Allowed[c][f]) -> DOMAIN h] :
             \A j \in 1..Len(Allowed[c][f]) : h[t[j]].c \in Allowed[c][f][j]}

RECURSIVE KidSpace(_, _)
KidSpace(c, fs) ==
    IF fs = <<>> THEN {<<>>}
    ELSE {(Head(fs) :> v) @@ r : v \in KidChoices(c, Head(fs)), r \in KidSpace(c, Tail(fs))}

RECURSIVE PropSpace(_, _)
PropSpace(c, fs) ==
    IF fs = <<>> THEN {<<>>}
    ELSE {(Head(fs) :> v) @@ r : v \in PropAtoms(c, Head(fs)), r \in PropSpace(c, Tail(fs))}

New(c) ==
    /\ NObj < MaxObjs
    /\ \E p \in PropSpace(c, PropFields[c]), k \in KidSpace(c, ChildFields[c]), o \in Origins :
          h' = h @@ (SlotName[NObj + 1] :> [c |-> c, p |-> p, k |-> k, o |-> o])

Init == h = <<>>
Next == \E c \in GenClasses : New(c)

=============================================================================
