---------------------------- MODULE Gen_Visitor ----------------------------
(***************************************************************************)
(* C09 case generator over HeapGen: tree rooted at the newest object x     *)
(* every rule set with at most two rules over RuleClasses x strict /       *)
(* non-strict; expected result term with identities; expected dispatch for *)
(* every class of the zoo x method set.                                    *)
(***************************************************************************)
EXTENDS HeapGen, Visitor, Json

CONSTANTS RuleClasses, RuleKinds

Root == Newest
Prepared == SlotName[1]

RuleSets == {<<>>} \cup {(c :> kd) : c \in RuleClasses, kd \in RuleKinds}
            \cup {(c :> kd) @@ (d :> ke) : c \in RuleClasses, d \in RuleClasses, kd \in RuleKinds, ke \in RuleKinds}

TCase(rules, strict) == [rules |-> rules, strict |-> strict, res |-> Transform(h, Root, rules, strict, Prepared)]

Case == [m |-> "visitor", h |-> h, root |-> Root, prepared |-> Prepared,
         runs |-> {TCase(r, st) : r \in RuleSets, st \in BOOLEAN}]

EmitInv == NObj > 0 => PrintT(ToJson(Case))

DispatchCase == [m |-> "dispatch",
                 cases |-> {[c |-> c, methods |-> ms, strict |-> st, res |-> Dispatch(c, ms, st)] :
                               c \in GenClasses, ms \in SUBSET (RuleClasses \cup {"ASTNode"}), st \in BOOLEAN}]
EmitDispatch == NObj = 0 => PrintT(ToJson(DispatchCase))

(* MC: post-conditions of Transform on every tree and rule set *)
NoChangeSame ==      \* an empty rule set (or one that changes nothing) returns the tree itself
    NObj > 0 => Transform(h, Root, <<>>, FALSE, Prepared) = Same(Root)
KeepOnlyIsIdentity ==
    NObj > 0 => \A c \in RuleClasses, st \in BOOLEAN : Transform(h, Root, (c :> "keep"), st, Prepared) = Same(Root)
StrictNarrower ==    \* under strict dispatch a rule on a base class never fires for a subclass instance
    \A c \in GenClasses, d \in RuleClasses : (c # d) => Dispatch(c, {d}, TRUE) = "generic"
=============================================================================
