--------------------------- MODULE Trace_Traverse ---------------------------
(***************************************************************************)
(* code -> spec for C05: every line of the trace file is one recorded call *)
(* of dfs / bfs / gather / children on a real tree (abstracted by alpha),  *)
(* and is accepted iff the observation equals the oracle of module Heap.   *)
(* Batch mode: one TLC step per line; rejected lines are collected in TLC  *)
(* register 1 and printed; the POSTCONDITION demands none and that every   *)
(* line was consumed.                                                      *)
(***************************************************************************)
EXTENDS Heap, Json, IOUtils, TLCExt

Lines == ndJsonDeserialize(IOEnv.TRACE_FILE)

VARIABLE l

ToSet(s) == {s[i] : i \in DOMAIN s}

Accept(c) ==
    LET hp == c.h
        P == ToSet(c.prune)
        F == IF c.fall THEN AllEdges(hp, c.root) ELSE ToSet(c.flt)
    IN CASE c.op = "dfs_pre"  -> c.obs = Keep(Pre(hp, c.root, P), F)
         [] c.op = "dfs_post" -> c.obs = Keep(Post(hp, c.root, P), F)
         [] c.op = "bfs"      -> c.obs = Keep(Bfs(hp, c.root, P), F)
         [] c.op = "children" -> c.obs = [j \in 1..Len(Kids(hp, c.root)) |-> Kids(hp, c.root)[j].n]
         [] c.op = "gather"   -> c.obs = Gather(hp, c.root, ToSet(c.classes), c.exact, F, P)
         [] OTHER -> FALSE

Init == l = 1 /\ TLCSet(1, {})
Next == /\ l <= Len(Lines)
        /\ IF Accept(Lines[l]) THEN TRUE
           ELSE TLCSet(1, TLCGet(1) \cup {l}) /\ PrintT(ToJson([rej |-> l, info |-> <<Lines[l].op>>]))
        /\ l' = l + 1
Done == PrintT(ToJson([rejected_total |-> Cardinality(TLCGet(1))])) /\ TLCGet(1) = {} /\ TLCGet("stats").diameter - 1 = Len(Lines)
=============================================================================
