------------------------------ MODULE Pattern ------------------------------
(***************************************************************************)
(* The documented semantics of the pattern DSL (C08) as a pure operator.   *)
(*                                                                         *)
(* Pattern AST                                                             *)
(*   tree  [t |-> "tree", classes : sequence of class names or <<"*">>,      *)
(*          fields : Seq([name, spec, cap])]      cap = capture name / ""  *)
(*   spec  [t |-> "any"]              @f            any value              *)
(*         [t |-> "re", toks, dollar] @f="..."      regex: literal chars   *)
(*                                                  and "." ; optional $   *)
(*         [t |-> "none"]             @f=None                              *)
(*         [t |-> "empty"]            @f=[]                                *)
(*         [t |-> "var", name]        @f=$name                             *)
(*         [t |-> "tree", ...]        @f=( ... )    nested pattern         *)
(*         [t |-> "seq", items : Seq([v : spec, cap]),                     *)
(*          tail : BOOLEAN, tailcap]  @f=[v1 v2 * -> rest]                 *)
(*                                                                         *)
(* Values seen by a pattern: [k |-> "atom", pool, a], [k |-> "node", s],   *)
(* [k |-> "none"], [k |-> "tuple", ss].  Captures map names to values (the *)
(* very object: slots / atoms / tuples of slots).                          *)
(***************************************************************************)
EXTENDS Heap

FieldExists(h, n, f) == f \in Range(AllFields[h[n].c])

FieldVal(h, n, f) ==
    LET c == h[n].c IN
    IF f \in Range(PropFields[c]) THEN [k |-> "atom", pool |-> PoolOf[c][f], a |-> h[n].p[f]]
    ELSE IF IsSeqKind(Kind[c][f]) THEN [k |-> "tuple", ss |-> h[n].k[f]]
    ELSE IF h[n].k[f] = NoSlot THEN [k |-> "none"]
    ELSE [k |-> "node", s |-> h[n].k[f]]

AtomStr(v) == PoolStr[v.pool][v.a + 1]
AtomType(v) == PoolType[v.pool][v.a + 1]
IsNone(v) == v.k = "none" \/ (v.k = "atom" /\ AtomType(v) = "none")

(* str(value) as characters; only property values are given to regexes *)
StrOf(v) == IF v.k = "atom" THEN AtomStr(v) ELSE IF v.k = "none" THEN <<"N", "o", "n", "e">> ELSE <<"?">>

(* re.match semantics of the tiny regex language: anchored at the start, '.' any character,
   a final '$' anchors the end *)
ReMatch(re, s) ==
    /\ Len(re.toks) <= Len(s)
    /\ \A j \in 1..Len(re.toks) : re.toks[j] = "." \/ re.toks[j] = s[j]
    /\ re.dollar => Len(re.toks) = Len(s)

(* == of two values; content equality when the captured value is a node *)
ValEq(h, x, y) ==
    IF x.k = "node" THEN y.k = "node" /\ CEq(h, x.s, h, y.s)
    ELSE IF x.k = "atom" THEN (y.k = "atom" /\ AtomType(x) = AtomType(y) /\ AtomStr(x) = AtomStr(y))
                              \/ (IsNone(x) /\ IsNone(y))
    ELSE IF x.k = "none" THEN IsNone(y)
    ELSE y.k = "tuple" /\ Len(x.ss) = Len(y.ss) /\ \A j \in 1..Len(x.ss) : Eq(h, x.ss[j], h, y.ss[j])

Fail == [ok |-> FALSE, caps |-> <<>>]
WithCap(res, name, v) == IF res.ok /\ name # "" THEN [ok |-> TRUE, caps |-> (name :> v) @@ res.caps] ELSE res

RECURSIVE MatchTree(_, _, _, _), MatchSpec(_, _, _, _), MatchFields(_, _, _, _, _), MatchItems(_, _, _, _, _)

(* ctx: captures visible so far (name -> value); result caps: captures made by this (sub)pattern *)
MatchSpec(sp, h, v, ctx) ==
    CASE sp.t = "any"   -> [ok |-> TRUE, caps |-> <<>>]
      [] sp.t = "re"    -> [ok |-> ReMatch(sp, StrOf(v)), caps |-> <<>>]
      [] sp.t = "none"  -> [ok |-> IsNone(v), caps |-> <<>>]
      [] sp.t = "empty" -> [ok |-> v.k = "tuple" /\ v.ss = <<>>, caps |-> <<>>]
      [] sp.t = "var"   -> [ok |-> ValEq(h, ctx[sp.name], v), caps |-> <<>>]
      [] sp.t = "tree"  -> IF v.k = "node" THEN MatchTree(sp, h, v.s, ctx) ELSE Fail
      [] sp.t = "seq"   ->
           IF v.k # "tuple" THEN Fail
           ELSE IF (~sp.tail /\ Len(v.ss) # Len(sp.items)) \/ (sp.tail /\ Len(v.ss) < Len(sp.items)) THEN Fail
           ELSE LET r == MatchItems(sp.items, h, v.ss, ctx, 1) IN
                IF ~r.ok THEN Fail
                ELSE IF sp.tail /\ sp.tailcap # ""
                     THEN [ok |-> TRUE,
                           caps |-> (sp.tailcap :> [k |-> "tuple", ss |-> SubSeq(v.ss, Len(sp.items) + 1, Len(v.ss))]) @@ r.caps]
                     ELSE r

MatchItems(items, h, ss, ctx, j) ==
    IF j > Len(items) THEN [ok |-> TRUE, caps |-> <<>>]
    ELSE LET v == [k |-> "node", s |-> ss[j]]
             r == WithCap(MatchSpec(items[j].v, h, v, ctx), items[j].cap, v)
         IN IF ~r.ok THEN Fail
            ELSE LET rest == MatchItems(items, h, ss, r.caps @@ ctx, j + 1)
                 IN IF rest.ok THEN [ok |-> TRUE, caps |-> rest.caps @@ r.caps] ELSE Fail

MatchFields(fs, h, n, ctx, j) ==
    IF j > Len(fs) THEN [ok |-> TRUE, caps |-> <<>>]
    ELSE IF ~FieldExists(h, n, fs[j].name) THEN Fail
    ELSE LET v == FieldVal(h, n, fs[j].name)
             r == WithCap(MatchSpec(fs[j].spec, h, v, ctx), fs[j].cap, v)
         IN IF ~r.ok THEN Fail
            ELSE LET rest == MatchFields(fs, h, n, r.caps @@ ctx, j + 1)
                 IN IF rest.ok THEN [ok |-> TRUE, caps |-> rest.caps @@ r.caps] ELSE Fail

MatchTree(p, h, n, ctx) ==
    IF ~(\E j \in DOMAIN p.classes : p.classes[j] = "*" \/ IsSub(h[n].c, p.classes[j])) THEN Fail
    ELSE MatchFields(p.fields, h, n, ctx, 1)

Match(p, h, n) == MatchTree(p, h, n, <<>>)

(* MultiPatternMatcher: the first rule, in the given order, that matches *)
Multi(rules, h, n) ==
    LET hits == {j \in 1..Len(rules) : Match(rules[j], h, n).ok}
    IN IF hits = {} THEN [rule |-> 0, caps |-> <<>>]
       ELSE LET j == CHOOSE x \in hits : \A y \in hits : x <= y
            IN [rule |-> j, caps |-> Match(rules[j], h, n).caps]

---------------------------------------------------------------------------
(* static side conditions of a pattern definition (C17): capture names unique over the whole
   text, every variable after its capture (in text order) *)
RECURSIVE CapsOfSpec(_), CapsOfFields(_, _), CapsOfItems(_, _)
(* sequence of events in text order: <<"cap", name>> / <<"var", name>> *)
CapsOfSpec(sp) ==
    IF sp.t = "var" THEN <<<<"var", sp.name>>>>
    ELSE IF sp.t = "tree" THEN CapsOfFields(sp.fields, 1)
    ELSE IF sp.t = "seq" THEN CapsOfItems(sp.items, 1) \o (IF sp.tail /\ sp.tailcap # "" THEN <<<<"cap", sp.tailcap>>>> ELSE <<>>)
    ELSE <<>>
CapsOfItems(items, j) ==
    IF j > Len(items) THEN <<>>
    ELSE CapsOfSpec(items[j].v) \o (IF items[j].cap # "" THEN <<<<"cap", items[j].cap>>>> ELSE <<>>) \o CapsOfItems(items, j + 1)
CapsOfFields(fs, j) ==
    IF j > Len(fs) THEN <<>>
    ELSE CapsOfSpec(fs[j].spec) \o (IF fs[j].cap # "" THEN <<<<"cap", fs[j].cap>>>> ELSE <<>>) \o CapsOfFields(fs, j + 1)

Events(p) == CapsOfFields(p.fields, 1)
WellFormed(p) ==
    LET ev == Events(p) IN
    /\ \A i, j \in 1..Len(ev) : (i # j /\ ev[i][1] = "cap" /\ ev[j][1] = "cap") => ev[i][2] # ev[j][2]
    /\ \A j \in 1..Len(ev) : ev[j][1] = "var" => \E i \in 1..(j - 1) : ev[i] = <<"cap", ev[j][2]>>
=============================================================================
