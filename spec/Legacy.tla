------------------------------- MODULE Legacy -------------------------------
(***************************************************************************)
(* The legacy parent-aware node machine (C18 / C19), transcribed from      *)
(* src/pyoak/legacy/node.py one critical section per operator, in the      *)
(* order the code performs its steps -- including the effects that remain  *)
(* when a step fails half-way (named deviations, see PartialEffects).      *)
(*                                                                         *)
(* A state S is [obj, reg]:                                                *)
(*   obj  name -> [c, p, k, o, id, oid, coll, pid, pf, pi, cid]            *)
(*          k    per child field: a name or "none", or a sequence of names *)
(*               (mutable: _replace_child re-assigns the parent's field)   *)
(*          id / oid / coll  id, original_id, id_collision_with ("none")   *)
(*          pid / pf / pi    the stored upward link: the parent's *id*,    *)
(*               field name, index (-1 = None).  parent == reg[pid], so a  *)
(*               link to an unregistered id reads as "no parent".          *)
(*          cid  cached content id                                         *)
(*   reg  id -> name      AwareASTNode._nodes (weak: only held nodes)      *)
(* Ids and content ids are strings.  The digest of a newly built node is a *)
(* parameter d of Create: the model-checking instance passes the preimage  *)
(* itself (a perfect hash), the trace instance the digest the library      *)
(* produced (and checks that digests are a function of the preimage).      *)
(***************************************************************************)
EXTENDS Heap, TLC

None == "none"
Min2(a, b) == IF a < b THEN a ELSE b

RECURSIVE Join(_)
Join(ss) == IF ss = <<>> THEN "" ELSE Head(ss) \o Join(Tail(ss))

(* -------- reading a state -------- *)
Names(S) == DOMAIN S.obj
Look(S, id) == IF id \in DOMAIN S.reg THEN S.reg[id] ELSE None          \* _nodes.get(id)
Detached(S, n) == Look(S, S.obj[n].id) # n
Parent(S, n) == IF S.obj[n].pid = None THEN None ELSE Look(S, S.obj[n].pid)
IsAttachedRoot(S, n) == Parent(S, n) = None /\ ~Detached(S, n)
IsAttachedSubtree(S, n) == Parent(S, n) # None /\ ~Detached(S, n)
KidsOf(S, n) == Kids(S.obj, n)           \* <<[n, f, i]>> in declaration order, i = -1 for a single field

(* -------- elementary writes -------- *)
ClearParent(S, n) == [S EXCEPT !.obj[n].pid = None, !.obj[n].pf = None, !.obj[n].pi = 0 - 1]
SetParent(S, c, pn, f, i) == [S EXCEPT !.obj[c].pid = S.obj[pn].id, !.obj[c].pf = f, !.obj[c].pi = i]
Register(S, n) == [S EXCEPT !.reg = (S.obj[n].id :> n) @@ S.reg]
Unregister(S, id) == [S EXCEPT !.reg = [x \in (DOMAIN S.reg) \ {id} |-> S.reg[x]]]
AddObj(S, n, r) == [S EXCEPT !.obj = (n :> r) @@ S.obj]
DropObjs(S, ns) == [obj |-> [x \in (DOMAIN S.obj) \ ns |-> S.obj[x]],
                    reg |-> [x \in {y \in DOMAIN S.reg : S.reg[y] \notin ns} |-> S.reg[x]]]

(* -------- digests -------- *)
IdxStr(i) == IF i <= 0 THEN "-1" ELSE ToString(i)                        \* `i or -1`: None and 0 both read -1
PropPart(c, p, all) ==
    Join([j \in 1..Len(PropFieldsSorted[c]) |->
            LET f == PropFieldsSorted[c][j] IN
            IF all \/ Compare[c][f] THEN ":" \o f \o "=" \o ToString(p[f]) ELSE ""])
(* the preimage of an automatic id: class, origin, all properties by name, children by (field, index) with their ids *)
IdKeyStr(S, c, o, p, k) ==
    LET tmp == [c |-> c, k |-> k]
        ks == KidsIn((("#") :> tmp), "#", ChildFieldsSorted[c])
    IN c \o ":o" \o ToString(o) \o PropPart(c, p, TRUE)
         \o Join([j \in 1..Len(ks) |-> ":" \o ks[j].f \o "[" \o IdxStr(ks[j].i) \o "]=" \o S.obj[ks[j].n].id])
(* the cached content id is computed from the children's *cached* content ids *)
CidOf(S, n) ==
    LET r == S.obj[n]
        ks == KidsSorted(S.obj, n)
    IN r.c \o PropPart(r.c, r.p, FALSE)
         \o Join([j \in 1..Len(ks) |-> ":" \o ks[j].f \o "[" \o IdxStr(ks[j].i) \o "]=(" \o S.obj[ks[j].n].cid \o ")"])
RECURSIVE FreshCid(_, _, _)
FreshCid(S, n, fuel) ==       \* content id of an independently built equal tree
    LET r == S.obj[n]
        ks == KidsSorted(S.obj, n)
    IN IF fuel = 0 THEN "cycle" ELSE
       r.c \o PropPart(r.c, r.p, FALSE)
         \o Join([j \in 1..Len(ks) |-> ":" \o ks[j].f \o "[" \o IdxStr(ks[j].i) \o "]=(" \o FreshCid(S, ks[j].n, fuel - 1) \o ")"])
SetCid(S, n) == [S EXCEPT !.obj[n].cid = CidOf(S, n)]
RECURSIVE ResetCid(_, _, _)
ResetCid(S, n, fuel) ==       \* _reset_content_id: this node and every parent() above it
    IF n = None \/ fuel = 0 THEN S
    ELSE LET S1 == SetCid(S, n) IN ResetCid(S1, Parent(S1, n), fuel - 1)
Fuel(S) == Cardinality(Names(S)) + 1

(* _get_next_unique_id: first of id_1, id_2, ... that is not registered *)
NextUnique(S, id) ==
    LET N == Cardinality(DOMAIN S.reg) + 1
        free(i) == (id \o "_" \o ToString(i)) \notin DOMAIN S.reg
        i0 == CHOOSE i \in 1..N : free(i) /\ \A j \in 1..(i - 1) : ~free(j)
    IN id \o "_" \o ToString(i0)

(* -------- attach -------- *)
(* result: [S, err]; on an error the effects made so far stay (this is what the code does) *)
RECURSIVE AttachInner(_, _), AttachKids(_, _, _, _)
AttachInner(S, n) ==
    IF S.obj[n].id \in DOMAIN S.reg
    THEN [S |-> S, err |-> "ASTNodeRegistryCollisionError"]
    ELSE LET r == AttachKids(S, n, KidsOf(S, n), 1) IN
         IF r.err # "" THEN r
         ELSE [S |-> Register(SetCid(r.S, n), n), err |-> ""]
AttachKids(S, n, ks, j) ==
    IF j > Len(ks) THEN [S |-> S, err |-> ""]
    ELSE LET c == ks[j].n IN
         IF Detached(S, c)
         THEN LET r == AttachInner(S, c) IN
              IF r.err # "" THEN r ELSE AttachKids(SetParent(r.S, c, n, ks[j].f, ks[j].i), n, ks, j + 1)
         ELSE IF ~IsAttachedRoot(S, c)
              THEN [S |-> S, err |-> "ASTNodeParentCollisionError"]
              ELSE AttachKids(SetParent(S, c, n, ks[j].f, ks[j].i), n, ks, j + 1)

Attach(S, n) == IF ~Detached(S, n) THEN [S |-> S, err |-> ""] ELSE AttachInner(S, n)

(* -------- detach -------- *)
RECURSIVE Detach(_, _, _), DetachKids(_, _, _, _)
Detach(S, n, only) ==
    IF Detached(S, n) \/ ~IsAttachedRoot(S, n) THEN S
    ELSE LET S1 == DetachKids(S, KidsOf(S, n), 1, only) IN Unregister(S1, S1.obj[n].id)
DetachKids(S, ks, j, only) ==
    IF j > Len(ks) THEN S
    ELSE LET S1 == ClearParent(S, ks[j].n)
             S2 == IF only THEN S1 ELSE Detach(S1, ks[j].n, FALSE)
         IN DetachKids(S2, ks, j + 1, only)

(* -------- the constructor -------- *)
(* args: [c, p, k, o, id ("" = automatic), unique, detached]; nm: the new node's name; d: digest for an automatic id
   result: [S, err, partial]  partial: the error came out of the attach phase (effects on the children stay) *)
HasDupIds(S, ks) == \E i, j \in 1..Len(ks) : i < j /\ S.obj[ks[i].n].id = S.obj[ks[j].n].id
Construct(S, nm, a, d) ==
    LET raw == [c |-> a.c, p |-> a.p, k |-> a.k, o |-> a.o, id |-> "", oid |-> None, coll |-> None,
                pid |-> None, pf |-> None, pi |-> 0 - 1, cid |-> ""]
        S0 == AddObj(S, nm, raw)
        ks == KidsOf(S0, nm)
        id0 == IF a.id = "" THEN d ELSE a.id
        taken == ~a.detached /\ Look(S, id0) # None
    IN IF HasDupIds(S0, ks) THEN [S |-> S, err |-> "ASTNodeDuplicateChildrenError", partial |-> FALSE]
       ELSE IF taken /\ a.unique THEN [S |-> S, err |-> "ASTNodeIDCollisionError", partial |-> FALSE]
       ELSE LET id1 == IF taken THEN NextUnique(S, id0) ELSE id0
                S1 == [S0 EXCEPT !.obj[nm].id = id1, !.obj[nm].coll = IF taken THEN id0 ELSE None]
            IN IF a.detached THEN [S |-> SetCid(S1, nm), err |-> "", partial |-> FALSE]
               ELSE LET r == AttachInner(S1, nm) IN
                    IF r.err # "" THEN [S |-> DropObjs(r.S, {nm}), err |-> r.err, partial |-> TRUE]
                    ELSE [S |-> SetCid(r.S, nm), err |-> "", partial |-> FALSE]

(* -------- _replace_child -------- *)
HasField(S, pn, f) == f \in {ChildFields[S.obj[pn].c][j] : j \in 1..Len(ChildFields[S.obj[pn].c])}
(* the stored link resolved to a node of a class without that field (an id re-used after a partially undone attach):
   reading the sequence raises AttributeError; for a single field the assignment just adds an attribute *)
ReplaceChildRaises(S, pn, f, i) == ~HasField(S, pn, f) /\ i # 0 - 1
ReplaceChild(S, pn, old, f, i, new) ==
    LET seq == IF HasField(S, pn, f) THEN S.obj[pn].k[f] ELSE <<>>
        S1 == IF ~HasField(S, pn, f) THEN S
              ELSE IF i # 0 - 1
              THEN (IF new # None
                    THEN [S EXCEPT !.obj[pn].k[f] = SubSeq(seq, 1, Min2(i, Len(seq))) \o <<new>> \o SubSeq(seq, i + 2, Len(seq))]
                    ELSE LET later == SubSeq(seq, i + 2, Len(seq))
                             T == [S EXCEPT !.obj[pn].k[f] = SubSeq(seq, 1, Min2(i, Len(seq))) \o later]
                             Shift[j \in 0..Len(later)] ==
                                 IF j = 0 THEN T ELSE SetParent(Shift[j - 1], later[j], pn, f, Shift[j - 1].obj[later[j]].pi - 1)
                         IN Shift[Len(later)])
              ELSE [S EXCEPT !.obj[pn].k[f] = new]
        S2 == IF new # None THEN SetParent(S1, new, pn, f, i) ELSE S1
    IN IF new = None \/ S.obj[old].cid # S.obj[new].cid THEN ResetCid(S2, pn, Fuel(S2)) ELSE S2

(* -------- replace -------- *)
(* chg: [bad |-> BOOLEAN, p |-> new props, k |-> new kids] (whole maps; unchanged fields repeat the old value) *)
Replace(S, n, chg, nm) ==
    IF chg.bad THEN [S |-> S, err |-> "ASTNodeReplaceError", partial |-> FALSE]
    ELSE
    LET r == S.obj[n]
        cp == Parent(S, n)
        cpf == r.pf
        cpi == r.pi
        S1 == IF cp # None THEN ClearParent(S, n) ELSE S
        was == ~Detached(S1, n)
        S2 == IF was THEN Detach(S1, n, TRUE) ELSE S1
        c == Construct(S2, nm, [c |-> r.c, p |-> chg.p, k |-> chg.k, o |-> r.o, id |-> r.id, unique |-> FALSE, detached |-> ~was], "")
    IN IF c.err # ""
       THEN LET ks == KidsOf(c.S, n)
                Relink[j \in 0..Len(ks)] == IF j = 0 THEN [c.S EXCEPT !.reg = (r.id :> n) @@ c.S.reg]
                                            ELSE SetParent(Relink[j - 1], ks[j].n, n, ks[j].f, ks[j].i)
                S3 == IF was THEN Relink[Len(ks)] ELSE c.S
                S4 == IF cp # None THEN SetParent(S3, n, cp, cpf, cpi) ELSE S3
            IN [S |-> S4, err |-> c.err, partial |-> c.partial]
       ELSE IF cp # None /\ ReplaceChildRaises(c.S, cp, cpf, cpi)
            THEN [S |-> c.S, err |-> "stray:AttributeError", partial |-> TRUE]
       ELSE LET S3 == IF cp # None THEN ReplaceChild(c.S, cp, n, cpf, cpi, nm) ELSE c.S
            IN [S |-> [S3 EXCEPT !.obj[nm].oid = r.oid, !.obj[nm].coll = r.coll], err |-> "", partial |-> FALSE]

(* -------- replace_with -------- *)
FieldAdmits(S, pn, f, new) ==
    LET kd == Kind[S.obj[pn].c][f] IN
    IF new = None THEN kd = "opt" \/ IsSeqKind(kd)
    ELSE S.obj[new].c \in Allowed[S.obj[pn].c][f]

(* hand the receiver's id over to `new` and attach it; on failure undo the hand-over and re-attach the receiver *)
HandOver(S, n, new, reattach, relink) ==
    LET newWas == ~Detached(S, new)
        S1 == IF newWas THEN Unregister(S, S.obj[new].id) ELSE S
        ids == <<S.obj[new].id, S.obj[new].oid>>
        S2 == [S1 EXCEPT !.obj[new].oid = ids[1], !.obj[new].id = S.obj[n].id]
        r == AttachInner(S2, new)
    IN IF r.err = "" THEN [S |-> r.S, err |-> "", partial |-> FALSE]
       ELSE LET S3 == [r.S EXCEPT !.obj[new].id = ids[1], !.obj[new].oid = ids[2]]
                S4 == IF relink.on THEN SetParent(S3, n, relink.p, relink.f, relink.i) ELSE S3
                back == IF reattach THEN AttachInner(S4, n) ELSE [S |-> S4, err |-> ""]
            IN IF back.err # "" THEN [S |-> back.S, err |-> back.err, partial |-> TRUE]      \* the rollback itself is refused
               ELSE [S |-> IF newWas THEN [back.S EXCEPT !.reg = (ids[1] :> new) @@ back.S.reg] ELSE back.S,
                     err |-> "ASTNodeReplaceWithError", partial |-> TRUE]

ReplaceWith(S, n, new) ==
    IF new # None /\ IsAttachedSubtree(S, new) THEN [S |-> S, err |-> "ASTNodeReplaceWithError", partial |-> FALSE]
    ELSE IF Parent(S, n) # None
    THEN LET cp == Parent(S, n)
             cpf == S.obj[n].pf
             cpi == S.obj[n].pi
         IN (* a stored link can resolve to a node of a class that has no such field (the id was re-used after a
               partially undone attach): the code raises RuntimeError("... This is a bug, please report it") first *)
            IF ~HasField(S, cp, cpf)
            THEN [S |-> S, err |-> "stray:RuntimeError", partial |-> FALSE]
            ELSE
            IF ~FieldAdmits(S, cp, cpf, new) THEN [S |-> S, err |-> "ASTNodeReplaceWithError", partial |-> FALSE]
            ELSE LET S1 == Detach(ClearParent(S, n), n, FALSE)
                     h == IF new = None THEN [S |-> S1, err |-> "", partial |-> FALSE]
                          ELSE HandOver(S1, n, new, TRUE, [on |-> TRUE, p |-> cp, f |-> cpf, i |-> cpi])
                 IN IF h.err # "" THEN h
                    ELSE [S |-> ReplaceChild(h.S, cp, n, cpf, cpi, new), err |-> "", partial |-> FALSE]
    ELSE IF new # None
    THEN LET was == ~Detached(S, n)
             S1 == IF was THEN Detach(S, n, FALSE) ELSE S
         IN HandOver(S1, n, new, was, [on |-> FALSE])
    ELSE [S |-> Detach(S, n, FALSE), err |-> "", partial |-> FALSE]

(* -------- duplicate -------- *)
(* the copy of the child at field f, index i of a node whose copy is called X is called X/f<i> *)
KidName(nm, f, i) == nm \o "/" \o f \o (IF i = 0 - 1 THEN "" ELSE ToString(i))
RECURSIVE Duplicate(_, _, _, _), DupKids(_, _, _, _, _, _)
(* result: [S, err, partial, made]  made: names created so far (dropped again when the operation fails) *)
Duplicate(S, n, det, nm) ==
    LET ks == KidsOf(S, n)
        dk == DupKids(S, ks, 1, det, nm, {})
    IN IF dk.err # "" THEN dk
       ELSE LET r == dk.S.obj[n]
                newk == [f \in DOMAIN r.k |->
                           IF IsSeqKind(Kind[r.c][f]) THEN [j \in 1..Len(r.k[f]) |-> KidName(nm, f, j - 1)]
                           ELSE IF r.k[f] = None THEN None ELSE KidName(nm, f, 0 - 1)]
                c == Construct(dk.S, nm, [c |-> r.c, p |-> r.p, k |-> newk, o |-> r.o, id |-> r.id, unique |-> FALSE, detached |-> det], "")
            IN IF c.err # "" THEN [S |-> c.S, err |-> c.err, partial |-> c.partial, made |-> dk.made]
               ELSE [S |-> [c.S EXCEPT !.obj[nm].coll = r.coll,
                                       !.obj[nm].oid = IF c.S.obj[nm].id # r.id THEN r.id ELSE r.oid],
                     err |-> "", partial |-> FALSE, made |-> dk.made \cup {nm}]
DupKids(S, ks, j, det, nm, made) ==
    IF j > Len(ks) THEN [S |-> S, err |-> "", partial |-> FALSE, made |-> made]
    ELSE LET d == Duplicate(S, ks[j].n, det, KidName(nm, ks[j].f, ks[j].i)) IN
         IF d.err # "" THEN [d EXCEPT !.made = made \cup d.made]
         ELSE DupKids(d.S, ks, j + 1, det, nm, made \cup d.made)

(* a failed duplicate leaves no copy behind: the copies are garbage and the registry is weak *)
DuplicateOp(S, n, det, nm) ==
    LET d == Duplicate(S, n, det, nm) IN
    IF d.err = "" THEN [S |-> d.S, err |-> "", partial |-> FALSE]
    ELSE [S |-> DropObjs(d.S, d.made), err |-> d.err, partial |-> TRUE]

(* -------- operations as the programs spell them -------- *)
(* op: [op, c, a, b, kids, atom, mode] with handles as names h<i>; nm: name of the node the operation returns; d: digest *)
H(i) == "h" \o ToString(i)
KidsValue(c, kids) ==      \* the children argument of the constructor of class c built from a list of handles
    [f \in {ChildFields[c][j] : j \in 1..Len(ChildFields[c])} |->
        IF f = ChildFields[c][1]
        THEN (IF IsSeqKind(Kind[c][f]) THEN [j \in 1..Len(kids) |-> H(kids[j])]
              ELSE IF kids = <<>> THEN None ELSE H(kids[1]))
        ELSE (IF IsSeqKind(Kind[c][f]) THEN <<>> ELSE None)]
DefaultProps(c, atom) == [f \in {PropFields[c][j] : j \in 1..Len(PropFields[c])} |-> IF f = "a" THEN atom ELSE DefaultAtom[c][f]]

CreateArgs(S, op) == [c |-> op.c, p |-> DefaultProps(op.c, op.atom), k |-> KidsValue(op.c, op.kids), o |-> 0, id |-> "",
                      unique |-> op.mode = "unique", detached |-> op.mode = "detached"]
CreateKey(S, op) == LET a == CreateArgs(S, op) IN IdKeyStr(S, a.c, a.o, a.p, a.k)

(* -------- ASTTransformer.execute -------- *)
(* The traversal order is fixed before the first transformation: legacy dfs(bottom_up=True) builds its whole yield
   queue first (post-order, children left to right).  The user's transform() is the rule of the programs: it acts on
   leaf-like nodes whose property a is `atom`:  keep | bump: node.replace(a = atom + 1 mod 3) | fresh: a newly built
   attached LLeaf(a = 2) | drop: None.  A refused replace_with surfaces as ASTTransformError; what was replaced before
   stays (named deviation transformer-partial-effects). *)
RECURSIVE PostOrder(_, _, _)
PostOrder(S, n, fuel) ==
    IF fuel = 0 THEN <<>>
    ELSE LET ks == KidsOf(S, n) IN Flatten([j \in 1..Len(ks) |-> PostOrder(S, ks[j].n, fuel - 1)]) \o <<n>>

LeafLikeC == {"LLeaf", "LSub"}
Selected(S, x, atom) == S.obj[x].c \in LeafLikeC /\ S.obj[x].p["a"] = atom
(* the name a node created for position `x` of the receiver's tree gets: the first path (depth first, declaration
   order) from the returned node, as the harness names what it finds below a returned node; "" if x is not below cur *)
RECURSIVE FindPath(_, _, _, _, _), FindIn(_, _, _, _, _, _)
FindPath(S, cur, curname, x, fuel) ==
    IF cur = x THEN curname
    ELSE IF fuel = 0 THEN ""
    ELSE FindIn(S, KidsOf(S, cur), 1, curname, x, fuel)
FindIn(S, ks, j, curname, x, fuel) ==
    IF j > Len(ks) THEN ""
    ELSE LET r == FindPath(S, ks[j].n, KidName(curname, ks[j].f, ks[j].i), x, fuel - 1) IN
         IF r # "" THEN r ELSE FindIn(S, ks, j + 1, curname, x, fuel)
PathName(S, root, x, nm, fuel) == FindPath(S, root, nm, x, fuel)

Tmp(n) == "t" \o ToString(n)
(* one step of the user's rule on node x; result [S, new, err, partial]; a node it makes is called t<ctr> (renamed after
   its final position at the end, RenameBelow) *)
Act(S, x, rule, atom, ctr, d, use) ==
    IF ~Selected(S, x, atom) \/ rule = "keep" THEN [S |-> S, new |-> x, err |-> "", partial |-> FALSE]
    ELSE IF rule = "drop" THEN [S |-> S, new |-> None, err |-> "", partial |-> FALSE]
    ELSE IF rule = "use" THEN [S |-> S, new |-> use, err |-> "", partial |-> FALSE]      \* an existing node is handed back
    ELSE IF rule = "bump"
         THEN LET r == Replace(S, x, [bad |-> FALSE, p |-> [S.obj[x].p EXCEPT !["a"] = (atom + 1) % 3], k |-> S.obj[x].k], Tmp(ctr))
              IN [S |-> r.S, new |-> IF r.err = "" THEN Tmp(ctr) ELSE None, err |-> r.err, partial |-> r.partial]
         ELSE LET r == Construct(S, Tmp(ctr), [c |-> "LLeaf", p |-> DefaultProps("LLeaf", 2), k |-> <<>>, o |-> 0, id |-> "",
                                                unique |-> FALSE, detached |-> FALSE], d)
              IN [S |-> r.S, new |-> IF r.err = "" THEN Tmp(ctr) ELSE None, err |-> r.err, partial |-> r.partial]

(* the registry is weak: a node made by the rule that nothing holds any more (e.g. the replacement of a parentless
   node, once the loop has moved on) is gone at once, and its id is free again *)
Collect(S, old) == DropObjs(S, (Names(S) \ old) \ UNION {Reach(S.obj, y) : y \in old})

RECURSIVE ExecFrom(_, _, _, _, _, _, _, _, _, _)
ExecFrom(S, root, order, j, rule, atom, ctr, d, use, old) ==      \* result [S, err, partial, ret]
    IF j > Len(order) THEN [S |-> S, err |-> "", partial |-> FALSE, ret |-> root]
    ELSE LET x == order[j]
             a == Act(S, x, rule, atom, ctr, d, use)
         IN IF a.err # "" THEN [S |-> a.S, err |-> a.err, partial |-> TRUE, ret |-> None]     \* the rule's own call failed (not wrapped)
            ELSE IF x = root THEN [S |-> a.S, err |-> "", partial |-> FALSE, ret |-> a.new]     \* the root's result is only returned
            ELSE IF a.new = x THEN ExecFrom(a.S, root, order, j + 1, rule, atom, ctr + 1, d, use, old)
            ELSE IF a.new = None \/ a.S.obj[a.new].id # a.S.obj[x].id
                 THEN LET r == ReplaceWith(a.S, x, a.new) IN
                      IF r.err # "" THEN [S |-> r.S, err |-> "ASTTransformError", partial |-> TRUE, ret |-> None]
                      ELSE ExecFrom(Collect(r.S, old), root, order, j + 1, rule, atom, ctr + 1, d, use, old)
                 ELSE ExecFrom(Collect(a.S, old), root, order, j + 1, rule, atom, ctr + 1, d, use, old)

(* -------- ASTTransformVisitor.transform -------- *)
(* transform(x): an attached x is first cloned (duplicate, detached) and the clone is visited; the visit of a
   leaf-like node is the user's rule, of any other node generic_visit: transform every child (recursively, so an
   attached child of a detached node is cloned and replaced on its own), and if any result is another object (or
   None), node.replace(changed fields).  Finally the attached original is replace_with-ed by the result.  Any exception
   on the way surfaces as ASTTransformError.  Nodes made on the way are called t<n>...; the ones that survive are
   renamed after their position below the returned node at the end (RenameBelow). *)
(* results: [S, res (a name or None), err, ctr] *)
RECURSIVE Transform(_, _, _, _, _, _), VisitKids(_, _, _, _, _, _, _, _, _, _)
VisitNode(S, x, rule, atom, d, ctr) ==
    IF S.obj[x].c \in LeafLikeC
    THEN (IF ~Selected(S, x, atom) \/ rule = "keep" THEN [S |-> S, res |-> x, err |-> "", ctr |-> ctr]
          ELSE IF rule = "drop" THEN [S |-> S, res |-> None, err |-> "", ctr |-> ctr]
          ELSE IF rule = "boom" THEN [S |-> S, res |-> None, err |-> "UserBoom", ctr |-> ctr]
          ELSE IF rule = "bump"
               THEN LET r == Replace(S, x, [bad |-> FALSE, p |-> [S.obj[x].p EXCEPT !["a"] = (atom + 1) % 3], k |-> S.obj[x].k], Tmp(ctr))
                    IN [S |-> r.S, res |-> IF r.err = "" THEN Tmp(ctr) ELSE None, err |-> r.err, ctr |-> ctr + 1]
               ELSE LET r == Construct(S, Tmp(ctr), [c |-> "LLeaf", p |-> DefaultProps("LLeaf", 2), k |-> <<>>, o |-> 0, id |-> "",
                                                      unique |-> FALSE, detached |-> FALSE], d)
                    IN [S |-> r.S, res |-> IF r.err = "" THEN Tmp(ctr) ELSE None, err |-> r.err, ctr |-> ctr + 1])
    ELSE LET ks == KidsOf(S, x)
             v == VisitKids(S, x, ks, 1, [f \in DOMAIN S.obj[x].k |-> IF IsSeqKind(Kind[S.obj[x].c][f]) THEN <<>> ELSE None],
                            {}, rule, atom, d, ctr)
         IN IF v.err # "" THEN [S |-> v.S, res |-> None, err |-> v.err, ctr |-> v.ctr]
            ELSE IF v.changed = {} THEN [S |-> v.S, res |-> x, err |-> "", ctr |-> v.ctr]
            ELSE LET newk == [f \in DOMAIN v.S.obj[x].k |-> IF f \in v.changed THEN v.acc[f] ELSE v.S.obj[x].k[f]]
                     r == Replace(v.S, x, [bad |-> FALSE, p |-> v.S.obj[x].p, k |-> newk], Tmp(v.ctr))
                 IN [S |-> r.S, res |-> IF r.err = "" THEN Tmp(v.ctr) ELSE None, err |-> r.err, ctr |-> v.ctr + 1]
(* fold over the children (taken before the first child is transformed): acc collects the new field values *)
VisitKids(S, x, ks, j, acc, changed, rule, atom, d, ctr) ==
    IF j > Len(ks) THEN [S |-> S, acc |-> acc, changed |-> changed, err |-> "", ctr |-> ctr]
    ELSE LET kd == ks[j]
             tr == Transform(S, kd.n, rule, atom, d, ctr)
             seq == kd.i # 0 - 1
         IN IF tr.err # "" THEN [S |-> tr.S, acc |-> acc, changed |-> changed, err |-> tr.err, ctr |-> tr.ctr]
            ELSE VisitKids(tr.S, x, ks, j + 1,
                           [acc EXCEPT ![kd.f] = IF seq THEN (IF tr.res = None THEN @ ELSE Append(@, tr.res)) ELSE tr.res],
                           IF tr.res # kd.n THEN changed \cup {kd.f} ELSE changed, rule, atom, d, tr.ctr)
Transform(S, x, rule, atom, d, ctr) ==
    LET att == ~Detached(S, x)
        dup == IF att THEN Duplicate(S, x, TRUE, Tmp(ctr)) ELSE [S |-> S, err |-> ""]
    IN IF dup.err # "" THEN [S |-> dup.S, res |-> None, err |-> dup.err, ctr |-> ctr + 1]          \* raised outside the try
       ELSE LET node == IF att THEN Tmp(ctr) ELSE x
                v == VisitNode(dup.S, node, rule, atom, d, ctr + 1)
            IN IF v.err # "" THEN [S |-> v.S, res |-> None, err |-> "ASTTransformError", ctr |-> v.ctr]
               ELSE IF ~att THEN v
               ELSE LET r == ReplaceWith(v.S, x, v.res) IN
                    IF r.err # "" THEN [S |-> r.S, res |-> None, err |-> "ASTTransformError", ctr |-> v.ctr]
                    ELSE [S |-> r.S, res |-> v.res, err |-> "", ctr |-> v.ctr]

RenameBelow(S, old, ret, nm) ==       \* new nodes below the returned node take their path names; other new nodes are garbage
    LET made == Names(S) \ old
        held == UNION {Reach(S.obj, y) : y \in old \cup (IF ret = None THEN {} ELSE {ret})}
        T == DropObjs(S, made \ held)
        keep == Names(T) \ old
        (* below the returned node: its path from there; otherwise (an operation that failed half-way, or a node that
           ended up elsewhere) its path from the first handle h1, h2, ... that reaches it, as the harness names it *)
        RECURSIVE FromHandles(_, _)
        FromHandles(x, i) == IF i > 64 THEN x
                             ELSE IF H(i) \in old /\ FindPath(T, H(i), H(i), x, Fuel(T)) # "" THEN FindPath(T, H(i), H(i), x, Fuel(T))
                             ELSE FromHandles(x, i + 1)
        path(x) == LET q == IF ret = None THEN "" ELSE FindPath(T, ret, nm, x, Fuel(T)) IN
                   IF q # "" THEN q ELSE FromHandles(x, 1)
        r(x) == IF x \in keep THEN path(x) ELSE x
        rk(c, f, v) == IF IsSeqKind(Kind[c][f]) THEN [j \in 1..Len(v) |-> r(v[j])] ELSE IF v = None THEN None ELSE r(v)
    IN [obj |-> [y \in {r(x) : x \in Names(T)} |->
                   LET x == CHOOSE z \in Names(T) : r(z) = y
                       rec == T.obj[x]
                   IN [rec EXCEPT !.k = [f \in DOMAIN rec.k |-> rk(rec.c, f, rec.k[f])]]],
        reg |-> [i \in DOMAIN T.reg |-> r(T.reg[i])]]

Tvisit(S, n, rule, atom, nm, d) ==
    LET tr == Transform(S, n, rule, atom, d, 1)
        T == RenameBelow(tr.S, Names(S), tr.res, nm) IN
    [S |-> T, err |-> tr.err, partial |-> tr.err # "" /\ T # S]

Texec(S, n, rule, atom, nm, d, use) ==
    LET r == ExecFrom(S, n, PostOrder(S, n, Fuel(S)), 1, rule, atom, 1, d, use, Names(S))
    IN [S |-> RenameBelow(r.S, Names(S), r.ret, nm), err |-> r.err, partial |-> r.partial]

Ok(S) == [S |-> S, err |-> "", partial |-> FALSE]
Apply(S, op, nm, d) ==
    LET a == H(op.a) IN
    CASE op.op = "create" -> Construct(S, nm, CreateArgs(S, op), d)
      [] op.op = "attach" -> LET r == Attach(S, a) IN [S |-> r.S, err |-> r.err, partial |-> r.err # ""]
      [] op.op = "detach" -> Ok(Detach(S, a, FALSE))
      [] op.op = "detach_self" -> Ok(Detach(S, a, TRUE))
      [] op.op = "replace_prop" -> Replace(S, a, [bad |-> FALSE, p |-> [S.obj[a].p EXCEPT !["a"] = op.atom], k |-> S.obj[a].k], nm)
      [] op.op = "replace_kids" ->
            LET c == S.obj[a].c
                f1 == ChildFields[c][1]
            IN Replace(S, a, [bad |-> FALSE, p |-> S.obj[a].p, k |-> [S.obj[a].k EXCEPT ![f1] = KidsValue(c, op.kids)[f1]]], nm)
      [] op.op = "replace_bad" -> Replace(S, a, [bad |-> TRUE], nm)
      [] op.op = "replace_with" -> ReplaceWith(S, a, H(op.b))
      [] op.op = "replace_with_none" -> ReplaceWith(S, a, None)
      [] op.op = "duplicate" -> DuplicateOp(S, a, op.mode = "detached", nm)
      [] op.op = "texec" -> Texec(S, a, op.mode, op.atom, nm, d, IF op.b = 0 THEN None ELSE H(op.b))
      [] op.op = "tvisit" -> Tvisit(S, a, op.mode, op.atom, nm, d)

(* the error a rejected operation surfaces with *)
Outcome(r) == IF r.err = "" THEN "ok" ELSE r.err
=============================================================================
