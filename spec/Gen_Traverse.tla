---------------------------- MODULE Gen_Traverse ----------------------------
(***************************************************************************)
(* C05 case generator: for every heap and the tree rooted at its newest    *)
(* object, every prune / filter combination (all subsets of the edge set   *)
(* for small trees) with the expected dfs pre / post and bfs sequences,    *)
(* the multiset of edges offered to the predicates, gather results and the *)
(* direct children.                                                        *)
(***************************************************************************)
EXTENDS HeapGen, Json

CONSTANT GatherClasses   \* sets of classes handed to gather

Root == Newest
EdgeSet == AllEdges(h, Root)
K == Cardinality(EdgeSet)

PruneSets == IF K <= 4 THEN SUBSET EdgeSet ELSE {S \in SUBSET EdgeSet : Cardinality(S) <= 1}
FilterSets(P) == IF K <= 3 THEN SUBSET EdgeSet ELSE {EdgeSet, P, EdgeSet \ P, {}}

FRun(P, F) == [flt  |-> F,
               pre  |-> Keep(Pre(h, Root, P), F),
               post |-> Keep(Post(h, Root, P), F),
               bfs  |-> Keep(Bfs(h, Root, P), F)]

(* `off`: everything offered to filter and prune under prune set P (pre-order) *)
PRun(P) == [prune |-> P, off |-> Pre(h, Root, P), fruns |-> {FRun(P, F) : F \in FilterSets(P)}]

GPrunes == {{}} \cup {{e} : e \in EdgeSet}
GRun(cs, ex, P, X) == [classes |-> cs, exact |-> ex, prune |-> P, extra |-> X,
                       res |-> Gather(h, Root, cs, ex, X, P)]

Case == [m |-> "traverse", h |-> h, root |-> Root,
         children |-> [j \in 1..Len(Kids(h, Root)) |-> Kids(h, Root)[j].n],
         all |-> EdgeSet,
         pruns |-> {PRun(P) : P \in PruneSets},
         gather |-> UNION {{GRun(cs, ex, P, X) : cs \in GatherClasses, ex \in BOOLEAN,
                                                  X \in {EdgeSet, EdgeSet \ P}} : P \in GPrunes}]

EmitInv == (NObj > 0 /\ K > 0) => PrintT(ToJson(Case))

(* MC: relations between the three declarative orders, checked on every heap *)
SameMultiset(s, t) == Len(s) = Len(t) /\ \A e \in Range(s) \cup Range(t) :
     Cardinality({j \in 1..Len(s) : s[j] = e}) = Cardinality({j \in 1..Len(t) : t[j] = e})

RealLink(e) == LET v == h[EP(e)].k[EF(e)] IN IF EI(e) < 0 THEN v = EN(e) ELSE v[EI(e) + 1] = EN(e)

OrdersAgree ==
    NObj > 0 =>
      \A P \in PruneSets :
         /\ SameMultiset(Pre(h, Root, P), Post(h, Root, P))
         /\ SameMultiset(Pre(h, Root, P), Bfs(h, Root, P))
         /\ \A e \in Range(Pre(h, Root, P)) : RealLink(e)
         \* nothing below a pruned edge is visited unless reachable another way
         /\ Range(Pre(h, Root, P)) \subseteq EdgeSet
(* descendants only: every visited node is a proper descendant, every proper descendant is visited *)
ExactlyDescendants ==
    NObj > 0 => {EN(e) : e \in EdgeSet} = UNION {Reach(h, Kids(h, Root)[j].n) : j \in 1..Len(Kids(h, Root))}
=============================================================================
