--------------------------- MODULE Trace_Visitor ---------------------------
(***************************************************************************)
(* code -> spec for C09: recorded transform() results (abstracted into a   *)
(* term: same(slot) / none / raise / new(class, props, origin, children))  *)
(* and recorded dispatch decisions; accepted iff they agree with           *)
(* Visitor!Transform / Visitor!Dispatch.                                   *)
(***************************************************************************)
EXTENDS Visitor, Json, IOUtils, TLCExt
Lines == ndJsonDeserialize(IOEnv.TRACE_FILE)
VARIABLE l
ToSet(s) == {s[i] : i \in DOMAIN s}

RECURSIVE Agree(_, _, _)
Agree(h, st, ob) ==
    IF st.t = "same" THEN ob.t = "same" /\ ob.s = st.s
    ELSE IF st.t \in {"none", "raise"} THEN ob.t = st.t
    ELSE /\ ob.t = "new"
         /\ LET c == h[st.src].c IN
            /\ ob.c = c /\ ob.o = h[st.src].o
            /\ \A j \in 1..Len(PropFields[c]) : ob.p[PropFields[c][j]] = st.p[PropFields[c][j]]
            /\ \A j \in 1..Len(ChildFields[c]) :
                 LET f == ChildFields[c][j]
                     v == h[st.src].k[f]
                     isq == IsSeqKind(Kind[c][f])
                 IN IF st.k[f].t = "field-same"
                    THEN IF isq THEN /\ Len(ob.k[f]) = Len(v)
                                     /\ \A x \in 1..Len(v) : ob.k[f][x].t = "same" /\ ob.k[f][x].s = v[x]
                         ELSE IF v = NoSlot THEN ob.k[f].t = "none" ELSE ob.k[f].t = "same" /\ ob.k[f].s = v
                    ELSE IF isq THEN /\ Len(ob.k[f]) = Len(st.k[f].v)
                                     /\ \A x \in 1..Len(st.k[f].v) : Agree(h, st.k[f].v[x], ob.k[f][x])
                         ELSE Agree(h, st.k[f].v, ob.k[f])

Accept(c) ==
    IF c.op = "transform" THEN Agree(c.h, Transform(c.h, c.root, c.rules, c.strict, c.prepared), c.obs)
    ELSE c.obs = Dispatch(c.c, ToSet(c.methods), c.strict)

Init == l = 1 /\ TLCSet(1, {})
Next == /\ l <= Len(Lines)
        /\ IF Accept(Lines[l]) THEN TRUE
           ELSE TLCSet(1, TLCGet(1) \cup {l}) /\ PrintT(ToJson([rej |-> l, info |-> <<Lines[l].op>>]))
        /\ l' = l + 1
Done == PrintT(ToJson([rejected_total |-> Cardinality(TLCGet(1))])) /\ TLCGet(1) = {} /\ TLCGet("stats").diameter - 1 = Len(Lines)
=============================================================================
