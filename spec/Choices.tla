------------------------------ MODULE Choices ------------------------------
(***************************************************************************)
(* The argument space of node construction over an existing heap: every    *)
(* admissible choice of property atoms and children for a class.  Shared   *)
(* by the heap generator (pure-function properties) and the registry       *)
(* machine (history properties), so both enumerate the same constructions. *)
(***************************************************************************)
EXTENDS Heap

CONSTANTS MaxTuple,     \* longest variadic tuple built
          GenClasses,   \* classes instantiated
          Origins       \* origin atoms
CONSTANT PropAtoms(_, _)   \* atoms tried for property f of class c

SlotsOfH(hh, allowed) == {s \in DOMAIN hh : hh[s].c \in allowed}

KidChoicesH(hh, c, f) ==
    LET kd == Kind[c][f] IN
    IF kd = "one" THEN SlotsOfH(hh, Allowed[c][f])
    ELSE IF kd = "opt" THEN SlotsOfH(hh, Allowed[c][f]) \cup {NoSlot}
    ELSE IF kd \in {"tuple", "list"}
         THEN UNION {[1..len -> SlotsOfH(hh, Allowed[c][f])] : len \in 0..MaxTuple}
    ELSE {t \in [1..Len(Allowed[c][f]) -> DOMAIN hh] :
             \A j \in 1..Len(Allowed[c][f]) : hh[t[j]].c \in Allowed[c][f][j]}

RECURSIVE KidSpaceH(_, _, _)
KidSpaceH(hh, c, fs) ==
    IF fs = <<>> THEN {<<>>}
    ELSE {(Head(fs) :> v) @@ r : v \in KidChoicesH(hh, c, Head(fs)), r \in KidSpaceH(hh, c, Tail(fs))}

RECURSIVE PropSpace(_, _)
PropSpace(c, fs) ==
    IF fs = <<>> THEN {<<>>}
    ELSE {(Head(fs) :> v) @@ r : v \in PropAtoms(c, Head(fs)), r \in PropSpace(c, Tail(fs))}

(* all constructor argument records for class c over heap hh *)
Ctor(hh, c) == {[c |-> c, p |-> p, k |-> k, o |-> o] :
                   p \in PropSpace(c, PropFields[c]), k \in KidSpaceH(hh, c, ChildFields[c]), o \in Origins}
=============================================================================
