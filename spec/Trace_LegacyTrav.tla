-------------------------- MODULE Trace_LegacyTrav --------------------------
(* code -> spec for C20: recorded legacy traversals and xpath matches on attached legacy trees *)
EXTENDS TreeQ, Json, IOUtils, TLCExt
Lines == ndJsonDeserialize(IOEnv.TRACE_FILE)
VARIABLE l
ToSet(s) == {s[i] : i \in DOMAIN s}
NodeSeq(es) == [j \in 1..Len(es) |-> EN(es[j])]
LTrav(h, r, mode, P, F, skip) ==
    LET PE == {e \in AllEdges(h, r) : EN(e) \in P}
        below == IF ~skip /\ r \in P THEN <<>>
                 ELSE NodeSeq(IF mode = "pre" THEN Pre(h, r, PE) ELSE IF mode = "post" THEN Post(h, r, PE) ELSE Bfs(h, r, PE))
        all == IF skip THEN below ELSE IF mode = "post" THEN Append(below, r) ELSE <<r>> \o below
    IN SelectSeq(all, LAMBDA n : n \in F)
Accept(c) ==
    CASE c.op = "trav" -> c.obs = LTrav(c.h, c.root, c.mode, ToSet(c.prune), IF c.fall THEN Nodes(c.h, c.root) ELSE ToSet(c.flt), c.skip)
      [] c.op = "xmatch" -> c.obs = Match(c.h, c.root, c.n, c.p)
      [] c.op = "xpath" -> c.obs = PathOf(c.h, c.root, c.n)
      [] OTHER -> FALSE
Init == l = 1 /\ TLCSet(1, {})
Next == /\ l <= Len(Lines)
        /\ IF NoShare(Lines[l].h, Lines[l].root) /\ Accept(Lines[l]) THEN TRUE
           ELSE TLCSet(1, TLCGet(1) \cup {l}) /\ PrintT(ToJson([rej |-> l, info |-> <<Lines[l].op>>]))
        /\ l' = l + 1
Done == PrintT(ToJson([rejected_total |-> Cardinality(TLCGet(1))])) /\ TLCGet(1) = {} /\ TLCGet("stats").diameter - 1 = Len(Lines)
=============================================================================
