---------------------------- MODULE Trace_Origin ----------------------------
(* code -> spec for C15: recorded range operations on large indices and recorded
   merge / concat / + results on random origin tuples; accepted iff equal to module Origin. *)
EXTENDS Origin, Json, IOUtils, TLCExt
Lines == ndJsonDeserialize(IOEnv.TRACE_FILE)
VARIABLE l
Accept(c) ==
    CASE c.op = "range2" -> /\ c.contains = Contains(c.a, c.b) /\ c.overlaps = Overlaps(c.a, c.b)
                            /\ c.lt = Lt(c.a, c.b) /\ c.le = Le(c.a, c.b) /\ c.hull = Hull(c.a, c.b)
      [] c.op = "merge"  -> c.obs = Merge(c.os) /\ c.src = SourceOf(Merge(c.os))
      [] c.op = "concat" -> c.obs = Concat(c.os) /\ c.src = SourceOf(Concat(c.os))
      [] OTHER -> FALSE
Init == l = 1 /\ TLCSet(1, {})
Next == /\ l <= Len(Lines)
        /\ IF Accept(Lines[l]) THEN TRUE
           ELSE TLCSet(1, TLCGet(1) \cup {l}) /\ PrintT(ToJson([rej |-> l, info |-> <<Lines[l].op>>]))
        /\ l' = l + 1
Done == PrintT(ToJson([rejected_total |-> Cardinality(TLCGet(1))])) /\ TLCGet(1) = {} /\ TLCGet("stats").diameter - 1 = Len(Lines)
=============================================================================
