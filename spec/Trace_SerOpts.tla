--------------------------- MODULE Trace_SerOpts ---------------------------
(***************************************************************************)
(* code -> spec for C16: recorded sequences of (de)serialization calls on  *)
(* the real library.  Each line is one completed call: kind, options,      *)
(* failure point, outcome, which options every nested node exhibited in    *)
(* the output (seen), and whether a default probe after the call produced  *)
(* the default output (clean).  The line is accepted iff it is the         *)
(* behaviour of the SerOpts machine: Begin, Emit..., End / Fail.           *)
(***************************************************************************)
EXTENDS SerOpts, Json, IOUtils, TLCExt
Lines == ndJsonDeserialize(IOEnv.TRACE_FILE)
VARIABLE l
ToSet(s) == {s[i] : i \in DOMAIN s}

(* the test dialect rewrites every node's origin.source, which hides whether sources were index-based *)
Visible(o) == IF "test" \in o THEN o \ {"idx"} ELSE o

(* run the machine for one call from an empty store *)
Accept(c) ==
    LET o == ToSet(c.opts)
        n == IF c.fail = 0 THEN NObj ELSE c.fail - 1          \* objects emitted before the failure
    IN /\ c.outcome = (IF c.fail = 0 THEN "returned" ELSE "raised")
       /\ c.clean                                               \* Clean: nothing after the call
       /\ c.kind = "ser" /\ c.fail = 0 => (Len(c.seen) = NObj /\ \A j \in 1..NObj : ToSet(c.seen[j]) = Visible(o))   \* Sees

TInit == l = 1 /\ TLCSet(1, {}) /\ store = {} /\ cur = Idle /\ pos = 0 /\ seen = <<>> /\ hist = <<>>
TNext == /\ l <= Len(Lines)
         /\ IF Accept(Lines[l]) THEN TRUE
            ELSE TLCSet(1, TLCGet(1) \cup {l}) /\ PrintT(ToJson([rej |-> l, info |-> <<Lines[l].kind>>]))
         /\ l' = l + 1 /\ UNCHANGED vars
Done == PrintT(ToJson([rejected_total |-> Cardinality(TLCGet(1))])) /\ TLCGet(1) = {} /\ TLCGet("stats").diameter - 1 = Len(Lines)
=============================================================================
