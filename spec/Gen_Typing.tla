----------------------------- MODULE Gen_Typing -----------------------------
(***************************************************************************)
(* C11 / C13 generator: case-enumeration machine.                          *)
(*   mode "classify": every annotation term of depth <= Depth with its     *)
(*                    verdict (C11)                                        *)
(*   mode "conform" : every accepted annotation of depth <= Depth x every  *)
(*                    value term, with Conforms (C13)                      *)
(***************************************************************************)
EXTENDS Typing, Json
CONSTANTS Mode, Depth, Values, GenLeaves
VARIABLE case

Anns == TermsOver(Depth, GenLeaves)
Init == IF Mode = "classify" THEN case \in {[t |-> t] : t \in Anns}
        ELSE case \in {[t |-> t] : t \in {x \in Anns : Classify(x) # "reject" /\ ~(\E j \in 1..Len(x) : x[j] = "mapping")}}
Next == UNCHANGED case

Exp == IF Mode = "classify" THEN [verdict |-> Classify(case.t)]
       ELSE [kind |-> Classify(case.t),
             vals |-> {[v |-> v, ok |-> Conforms(v, case.t), open |-> Unspecified(v, case.t)] : v \in Values}]
EmitInv == PrintT(ToJson([m |-> "typing", mode |-> Mode, t |-> case.t, exp |-> Exp]))

(* MC: the three verdicts partition the terms; a property never mentions a node class *)
Sound == /\ WellFormedTerm(case.t)
         /\ Classify(case.t) \in {"child", "prop", "reject"}
         /\ Classify(case.t) = "prop" => ~An(case.t, 1).node /\ ~An(case.t, 1).mut
         /\ Classify(case.t) = "child" => An(case.t, 1).node /\ ~An(case.t, 1).mut
=============================================================================
