----------------------------- MODULE Trace_Tree -----------------------------
(***************************************************************************)
(* code -> spec for C06 / C07 / C20: recorded Tree queries and xpath       *)
(* searches on real trees, accepted iff they equal the TreeQ operators.    *)
(***************************************************************************)
EXTENDS TreeQ, Json, IOUtils, TLCExt

Lines == ndJsonDeserialize(IOEnv.TRACE_FILE)
VARIABLE l
ToSet(s) == {s[i] : i \in DOMAIN s}

Accept(c) ==
    LET hp == c.h
        r == c.root
    IN CASE c.op = "parent_info" -> c.obs = ParentInfo(hp, r, c.n)
         [] c.op = "ancestors"   -> c.obs = Ancestors(hp, r, c.n)
         [] c.op = "depth"       -> c.obs = Depth(hp, r, c.n)
         [] c.op = "rel_depth"   -> c.obs = RelDepth(hp, r, c.n, c.a)
         [] c.op = "is_ancestor" -> c.obs = IsAncestor(hp, r, c.n, c.a)
         [] c.op = "first_anc"   -> c.obs = FirstAncestorOfType(hp, r, c.n, ToSet(c.classes), c.exact)
         [] c.op = "path"        -> c.obs = PathOf(hp, r, c.n)
         [] c.op = "xfind"       -> ToSet(c.obs) = FindAll(hp, r, c.p) /\ Len(c.obs) = Cardinality(ToSet(c.obs))
         [] c.op = "xmatch"      -> c.obs = Match(hp, r, c.n, c.p)
         [] OTHER -> FALSE

Init == l = 1 /\ TLCSet(1, {})
Next == /\ l <= Len(Lines)
        /\ IF NoShare(Lines[l].h, Lines[l].root) /\ Accept(Lines[l]) THEN TRUE
           ELSE TLCSet(1, TLCGet(1) \cup {l}) /\ PrintT(ToJson([rej |-> l, info |-> <<Lines[l].op>>]))
        /\ l' = l + 1
Done == PrintT(ToJson([rejected_total |-> Cardinality(TLCGet(1))])) /\ TLCGet(1) = {} /\ TLCGet("stats").diameter - 1 = Len(Lines)
=============================================================================
