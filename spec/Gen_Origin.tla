----------------------------- MODULE Gen_Origin -----------------------------
(***************************************************************************)
(* C15 case generator: a case-enumeration "machine" whose initial states   *)
(* are all cases of a finite family; each state is printed with its        *)
(* expected results and the laws are checked on it.                        *)
(*   kind "range2" / "range3": pairs / triples of ranges on the grid       *)
(*   kind "point": code point constructions (well-formed or not)           *)
(*   kind "rangector": range constructions from two indices                *)
(*   kind "ops": tuples of up to MaxOps origin atoms for + / merge / concat*)
(*   kind "slice": get_raw for every range over texts up to length MaxText *)
(***************************************************************************)
EXTENDS Origin, Json

CONSTANTS Grid,      \* indices used for ranges
          Atoms,     \* sequence of origin atoms
          MaxOps, MaxText, Kinds

VARIABLE case

Ranges == {R(s, e) : s \in Grid, e \in Grid} \cap {r \in [s : Grid, e : Grid] : r.s <= r.e}

RECURSIVE Tuples(_)
Tuples(n) == IF n = 0 THEN {<<>>} ELSE {Append(t, a) : t \in Tuples(n - 1), a \in 1..Len(Atoms)}
OpTuples == UNION {Tuples(n) : n \in 1..MaxOps}
Texts == {[j \in 1..n |-> j] : n \in 0..MaxText}       \* text of n distinct characters 1..n

Cases ==
    (IF "range2" \in Kinds THEN {[kind |-> "range2", a |-> a, b |-> b] : a \in Ranges, b \in Ranges} ELSE {})
    \cup (IF "range3" \in Kinds THEN {[kind |-> "range3", a |-> a, b |-> b, c |-> c] : a \in Ranges, b \in Ranges, c \in Ranges} ELSE {})
    \cup (IF "point" \in Kinds THEN {[kind |-> "point", idx |-> i, line |-> ln, col |-> c] : i \in (0 - 1)..2, ln \in 0..2, c \in (0 - 1)..1} ELSE {})
    \cup (IF "rangector" \in Kinds THEN {[kind |-> "rangector", s |-> s, e |-> e] : s \in Grid, e \in Grid} ELSE {})
    \cup (IF "ops" \in Kinds THEN {[kind |-> "ops", t |-> t] : t \in OpTuples} ELSE {})
    \cup (IF "slice" \in Kinds THEN {[kind |-> "slice", r |-> r, n |-> Len(tx)] : r \in Ranges, tx \in Texts} ELSE {})

Init == case \in Cases
Next == UNCHANGED case

Os(t) == [j \in 1..Len(t) |-> Atoms[t[j]]]

Expected ==
    CASE case.kind = "range2" ->
           [contains |-> Contains(case.a, case.b), overlaps |-> Overlaps(case.a, case.b), lt |-> Lt(case.a, case.b),
            le |-> Le(case.a, case.b), hull |-> Hull(case.a, case.b)]
      [] case.kind = "range3" -> [hull |-> Hull(Hull(case.a, case.b), case.c)]
      [] case.kind = "point" -> [ok |-> WellFormedPoint(case.idx, case.line, case.col)]
      [] case.kind = "rangector" -> [ok |-> case.s <= case.e]
      [] case.kind = "ops" ->
           LET os == Os(case.t) IN
           [merge |-> Merge(os), msrc |-> SourceOf(Merge(os)),
            concat |-> Concat(os), csrc |-> SourceOf(Concat(os)),
            add |-> IF Len(os) = 2 THEN Add(os[1], os[2]) ELSE No,
            \* multi-origin operands as produced by merge: (o1 merged o2) + o3, o1 + (o2 merged o3)
            addm |-> IF Len(os) = 3 THEN <<Add(Merge(<<os[1], os[2]>>), os[3]), Add(os[1], Merge(<<os[2], os[3]>>))>> ELSE <<>>]
      [] case.kind = "slice" -> [raw |-> Slice([j \in 1..case.n |-> j], case.r.s, case.r.e)]

EmitInv == PrintT(ToJson([m |-> "origin", c |-> case, exp |-> Expected]))

(* the laws, on the grid (proved for all naturals in OriginProofs.tla) *)
Laws ==
    /\ case.kind = "range2" =>
         LET a == case.a
             b == case.b IN
         /\ Contains(a, a)
         /\ (Contains(a, b) /\ Contains(b, a)) => a = b
         /\ Overlaps(a, b) <=> Overlaps(b, a)
         /\ a.e = b.s => Overlaps(a, b)
         /\ Lt(a, b) <=> ~(a.e >= b.s)
         /\ Contains(Hull(a, b), a) /\ Contains(Hull(a, b), b)
         /\ Hull(a, b) = Hull(b, a)
         /\ Hull(a, a) = a
    /\ case.kind = "range3" =>
         LET a == case.a
             b == case.b
             c == case.c IN
         /\ Hull(Hull(a, b), c) = Hull(a, Hull(b, c))
         /\ (Contains(a, b) /\ Contains(b, c)) => Contains(a, c)
    /\ case.kind = "ops" =>
         LET os == Os(case.t) IN
         /\ IsFlat(Merge(os)) /\ IsFlat(Concat(os))
         /\ (Len(os) = 1) => Merge(os) = os[1] /\ Concat(os) = os[1]
         /\ (\A j \in 1..Len(os) : os[j].k = "no") => Merge(os).k = "no"
=============================================================================
