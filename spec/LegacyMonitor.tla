---------------------------- MODULE LegacyMonitor ----------------------------
(***************************************************************************)
(* C18 / C19 as predicates over observed states of the legacy parent-aware *)
(* nodes.  A state S maps every node the program holds to the projection   *)
(*   [c, p, k, o, idc, oidc, det, par, pf, pi, cidc, cidok, anc, depth,    *)
(*    xp]                                                                  *)
(* taken from the public observables (k: children per field as node names; *)
(* det: `detached`; par / pf / pi: parent, parent_field, parent_index;     *)
(* cidok: content_id equals that of an independently built equal tree;     *)
(* anc / depth / xp: ancestors(), get_depth(), calculated xpath).          *)
(***************************************************************************)
EXTENDS Heap

Att(S) == {n \in DOMAIN S : ~S[n].det}

(* precondition of C18: no node object sits at two positions of the attached forest *)
Positions(S) == UNION {{<<Kids(S, n)[j].n, n, j>> : j \in 1..Len(Kids(S, n))} : n \in Att(S)}
NoDoublePlacement(S) == \A x, y \in Positions(S) : x[1] = y[1] => x = y

RECURSIVE Chain(_, _, _)
Chain(S, n, fuel) == IF S[n].par = "none" \/ fuel = 0 THEN <<>> ELSE <<S[n].par>> \o Chain(S, S[n].par, fuel - 1)
RECURSIVE PathUp(_, _, _)
PathUp(S, n, fuel) == IF S[n].par = "none" \/ fuel = 0 THEN <<<<"none", 0 - 1, S[n].c>>>>
                      ELSE PathUp(S, S[n].par, fuel - 1) \o <<<<S[n].pf, S[n].pi, S[n].c>>>>

ChildrenAttached(S) == \A n \in Att(S) : \A j \in 1..Len(Kids(S, n)) :
      LET kd == Kids(S, n)[j] IN ~S[kd.n].det /\ S[kd.n].par = n /\ S[kd.n].pf = kd.f /\ S[kd.n].pi = kd.i
ParentBackLink(S) == \A n \in Att(S) : S[n].par # "none" =>
      /\ S[n].par \in Att(S)
      /\ \E j \in 1..Len(Kids(S, S[n].par)) : LET kd == Kids(S, S[n].par)[j] IN kd.n = n /\ kd.f = S[n].pf /\ kd.i = S[n].pi
LookupExact(S) == \A a, b \in Att(S) : S[a].idc = S[b].idc => a = b
CidFresh(S) == \A n \in Att(S) : S[n].cidok
UpwardAgree(S) == \A n \in Att(S) :
      /\ S[n].anc = Chain(S, n, Cardinality(DOMAIN S))
      /\ S[n].depth = Len(S[n].anc)
      /\ S[n].xp = PathUp(S, n, Cardinality(DOMAIN S))

C18Clauses(S) == (IF ChildrenAttached(S) THEN {} ELSE {"children-attached"})
                 \cup (IF ParentBackLink(S) THEN {} ELSE {"parent-back-link"})
                 \cup (IF LookupExact(S) THEN {} ELSE {"lookup-exact"})
                 \cup (IF CidFresh(S) THEN {} ELSE {"content-id-fresh"})
                 \cup (IF ChildrenAttached(S) /\ ParentBackLink(S) /\ ~UpwardAgree(S) THEN {"upward-queries"} ELSE {})

(* C19: what must be identical before and after a rejected operation, for every pre-existing node *)
Proj(r) == [det |-> r.det, par |-> r.par, pf |-> r.pf, pi |-> r.pi, p |-> r.p, k |-> r.k, idc |-> r.idc,
            oidc |-> r.oidc, cidc |-> r.cidc]
C19Clauses(pre, post, nregpre, nregpost) ==
    (IF DOMAIN pre \subseteq DOMAIN post THEN {} ELSE {"node-lost"})
    \cup UNION {IF n \notin DOMAIN post THEN {}
                ELSE (IF pre[n].det = post[n].det THEN {} ELSE {"attached-changed"})
                     \cup (IF <<pre[n].par, pre[n].pf, pre[n].pi>> = <<post[n].par, post[n].pf, post[n].pi>> THEN {} ELSE {"parent-link-changed"})
                     \cup (IF pre[n].k = post[n].k /\ pre[n].p = post[n].p THEN {} ELSE {"fields-changed"})
                     \cup (IF pre[n].idc = post[n].idc /\ pre[n].oidc = post[n].oidc THEN {} ELSE {"id-changed"})
                     \cup (IF pre[n].cidc = post[n].cidc THEN {} ELSE {"content-id-changed"})
                  : n \in DOMAIN pre}
    \cup (IF nregpre = nregpost THEN {} ELSE {"registry-size-changed"})
=============================================================================
