---------------------------- MODULE Gen_SerOpts ----------------------------
(* exports every completed call sequence (witness history) of the option-store machine *)
EXTENDS SerOpts, Json
EmitAct == (Len(hist') > Len(hist)) => PrintT(ToJson([m |-> "seropts", calls |-> hist']))
=============================================================================
