---------------------------- MODULE OriginProofs ----------------------------
(***************************************************************************)
(* C15 interval laws for ALL naturals (TLAPS); TLC re-checks them on the   *)
(* grid in Gen_Origin.  Ranges are records [s, e] with s <= e.             *)
(***************************************************************************)
EXTENDS Integers, TLAPS

Min(a, b) == IF a <= b THEN a ELSE b
Max(a, b) == IF a >= b THEN a ELSE b
Rng == {r \in [s : Nat, e : Nat] : r.s <= r.e}
Contains(a, b) == a.s <= b.s /\ b.e <= a.e
Overlaps(a, b) == a.e >= b.s /\ a.s <= b.e
Lt(a, b) == a.e < b.s
Hull(a, b) == [s |-> Min(a.s, b.s), e |-> Max(a.e, b.e)]

THEOREM ContainsReflexive == \A a \in Rng : Contains(a, a)
  BY DEF Rng, Contains

THEOREM ContainsAntisymmetric == \A a, b \in Rng : Contains(a, b) /\ Contains(b, a) => a = b
  BY DEF Rng, Contains

THEOREM ContainsTransitive == \A a, b, c \in Rng : Contains(a, b) /\ Contains(b, c) => Contains(a, c)
  BY DEF Rng, Contains

THEOREM OverlapsSymmetric == \A a, b \in Rng : Overlaps(a, b) <=> Overlaps(b, a)
  BY DEF Rng, Overlaps

THEOREM TouchingOverlap == \A a, b \in Rng : a.e = b.s => Overlaps(a, b)
  BY DEF Rng, Overlaps

THEOREM LtMeansEndsBeforeStarts == \A a, b \in Rng : Lt(a, b) <=> ~(a.e >= b.s)
  BY DEF Rng, Lt

THEOREM LtExcludesOverlap == \A a, b \in Rng : Lt(a, b) => ~Overlaps(a, b)
  BY DEF Rng, Lt, Overlaps

THEOREM HullIsRange == \A a, b \in Rng : Hull(a, b) \in Rng
  BY DEF Rng, Hull, Min, Max

THEOREM HullContainsBoth == \A a, b \in Rng : Contains(Hull(a, b), a) /\ Contains(Hull(a, b), b)
  BY DEF Rng, Hull, Contains, Min, Max

THEOREM HullCommutative == \A a, b \in Rng : Hull(a, b) = Hull(b, a)
  BY DEF Rng, Hull, Min, Max

THEOREM HullIdempotent == \A a \in Rng : Hull(a, a) = a
  BY DEF Rng, Hull, Min, Max

THEOREM HullAssociative == \A a, b, c \in Rng : Hull(Hull(a, b), c) = Hull(a, Hull(b, c))
  BY DEF Rng, Hull, Min, Max

THEOREM HullSmallest == \A a, b, c \in Rng : Contains(c, a) /\ Contains(c, b) => Contains(c, Hull(a, b))
  BY DEF Rng, Hull, Contains, Min, Max
=============================================================================
