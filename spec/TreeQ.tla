------------------------------- MODULE TreeQ -------------------------------
(***************************************************************************)
(* Upward queries on a tree (C06) derived from the downward structure of   *)
(* module Heap, and the documented xpath semantics (C07, C20) in two       *)
(* independent formulations (bottom-up match, top-down search).            *)
(* Precondition everywhere: no object occurs twice below the root.         *)
(***************************************************************************)
EXTENDS Heap

NoShare(h, r) == Cardinality(AllEdges(h, r)) = Len(Pre(h, r, {}))
                 /\ Cardinality({EN(e) : e \in AllEdges(h, r)}) = Cardinality(AllEdges(h, r))
                 /\ r \notin {EN(e) : e \in AllEdges(h, r)}

Nodes(h, r) == Reach(h, r)

(* the edge under which n is stored (n # r) *)
UpEdge(h, r, n) == CHOOSE e \in AllEdges(h, r) : EN(e) = n
Parent(h, r, n) == IF n = r THEN NoSlot ELSE EP(UpEdge(h, r, n))
(* <<parent, field, index>>; <<NoSlot, "none", -1>> for the root (index -1 = None) *)
ParentInfo(h, r, n) == IF n = r THEN <<NoSlot, "none", 0 - 1>>
                       ELSE LET e == UpEdge(h, r, n) IN <<EP(e), EF(e), EI(e)>>

RECURSIVE Ancestors(_, _, _)
Ancestors(h, r, n) == IF n = r THEN <<>> ELSE <<Parent(h, r, n)>> \o Ancestors(h, r, Parent(h, r, n))

Depth(h, r, n) == Len(Ancestors(h, r, n))
IsAncestor(h, r, n, a) == a \in Range(Ancestors(h, r, n))
(* relative depth; "ValueError" when rel is not an ancestor of n *)
RelDepth(h, r, n, rel) ==
    IF ~IsAncestor(h, r, n, rel) THEN [tag |-> "ValueError", v |-> 0]
    ELSE [tag |-> "ok", v |-> CHOOSE j \in 1..Len(Ancestors(h, r, n)) : Ancestors(h, r, n)[j] = rel]

FirstAncestorOfType(h, r, n, classes, exact) ==
    LET as == Ancestors(h, r, n)
        ok(a) == IF exact THEN h[a].c \in classes ELSE \E d \in classes : IsSub(h[a].c, d)
        hits == {j \in 1..Len(as) : ok(as[j])}
    IN IF hits = {} THEN NoSlot ELSE as[CHOOSE j \in hits : \A k \in hits : j <= k]

(* the path of fields, indices and classes from the root: <<field, index, class>> per level, root first
   (the root's own step has no field: "none") *)
RECURSIVE PathOf(_, _, _)
PathOf(h, r, n) == IF n = r THEN <<<<"none", 0 - 1, h[r].c>>>>
                   ELSE PathOf(h, r, Parent(h, r, n)) \o <<<<ParentInfo(h, r, n)[2], ParentInfo(h, r, n)[3], h[n].c>>>>

---------------------------------------------------------------------------
(* xpath: a path is a sequence of steps [any, f, i, c]:
     any - the step is preceded by '//' (any number of intermediate levels; for the first step: the
           node may be anywhere in the tree, otherwise it must be the root)
     f   - required parent field or "none";  i - required tuple index or -1;  c - class or "none"  *)

StepOk(h, r, n, st) ==
    /\ st.c = "none" \/ IsSub(h[n].c, st.c)
    /\ st.f = "none" \/ (n # r /\ ParentInfo(h, r, n)[2] = st.f)       \* the root is stored in no field
    /\ st.i < 0 \/ (n # r /\ ParentInfo(h, r, n)[3] = st.i)            \* ... and at no index

(* bottom-up: does node n match the first k steps of p, as their last node *)
RECURSIVE MatchUp(_, _, _, _, _)
MatchUp(h, r, n, p, k) ==
    /\ StepOk(h, r, n, p[k])
    /\ IF k = 1 THEN p[1].any \/ n = r
       ELSE IF p[k].any THEN \E a \in Range(Ancestors(h, r, n)) : MatchUp(h, r, a, p, k - 1)
       ELSE n # r /\ MatchUp(h, r, Parent(h, r, n), p, k - 1)

Match(h, r, n, p) == MatchUp(h, r, n, p, Len(p))

(* top-down: the set of nodes reached after the first k steps *)
RECURSIVE Down(_, _, _, _)
Down(h, r, p, k) ==
    IF k = 1 THEN {n \in Nodes(h, r) : StepOk(h, r, n, p[1]) /\ (p[1].any \/ n = r)}
    ELSE LET prev == Down(h, r, p, k - 1) IN
         {n \in Nodes(h, r) :
            /\ StepOk(h, r, n, p[k])
            /\ IF p[k].any THEN \E a \in prev : IsAncestor(h, r, n, a)
               ELSE n # r /\ Parent(h, r, n) \in prev}

FindAll(h, r, p) == Down(h, r, p, Len(p))

Agree(h, r, p) == FindAll(h, r, p) = {n \in Nodes(h, r) : Match(h, r, n, p)}
=============================================================================
