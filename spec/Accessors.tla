------------------------------ MODULE Accessors ------------------------------
(***************************************************************************)
(* C12: what the child / property accessors must return, derived from the  *)
(* class definitions alone.  A hierarchy H maps a class name to            *)
(*    [base |-> class | "ASTNode", fields |-> Seq(field)]                  *)
(* with field = [n, kind, init, cmp] (kind: "prop" | "one" | "opt" |       *)
(* "tuple"): the fields the class body declares, in declaration order.     *)
(* The three system fields come from ASTNode.                              *)
(***************************************************************************)
EXTENDS Sequences, Naturals, FiniteSets, TLC

CONSTANT NameOrder      \* every field name, in lexicographic order (the renderer guarantees it)

Fld(n, kind, init, cmp) == [n |-> n, kind |-> kind, init |-> init, cmp |-> cmp]
SysFields == <<Fld("id", "prop", FALSE, FALSE), Fld("content_id", "prop", FALSE, FALSE), Fld("origin", "prop", TRUE, TRUE)>>

(* dataclass field order: inherited fields first; a re-declared field keeps its original position *)
Override(acc, f) == IF \E j \in 1..Len(acc) : acc[j].n = f.n
                    THEN [j \in 1..Len(acc) |-> IF acc[j].n = f.n THEN f ELSE acc[j]]
                    ELSE Append(acc, f)
RECURSIVE Fold(_, _)
Fold(acc, fs) == IF fs = <<>> THEN acc ELSE Fold(Override(acc, Head(fs)), Tail(fs))
RECURSIVE FieldsOf(_, _)
FieldsOf(H, c) == IF c = "ASTNode" THEN SysFields ELSE Fold(FieldsOf(H, H[c].base), H[c].fields)

Props(H, c) == SelectSeq(FieldsOf(H, c), LAMBDA f : f.kind = "prop")
Children(H, c) == SelectSeq(FieldsOf(H, c), LAMBDA f : f.kind # "prop")

Pos(n) == CHOOSE j \in 1..Len(NameOrder) : NameOrder[j] = n
(* fields sorted by name *)
ByName(fs) == LET ns == {fs[j].n : j \in 1..Len(fs)}
                  ordered == SelectSeq(NameOrder, LAMBDA n : n \in ns)
              IN [j \in 1..Len(ordered) |-> LET k == CHOOSE x \in 1..Len(fs) : fs[x].n = ordered[j] IN fs[k]]

(* flags: [id, origin, content_id, non_compare, non_init] each TRUE = skip *)
Keeps(f, fl) ==
    IF f.n = "id" THEN ~fl.id
    ELSE IF f.n = "content_id" THEN ~fl.content_id
    ELSE IF f.n = "origin" THEN ~fl.origin
    ELSE ~((~f.cmp /\ fl.non_compare) \/ (~f.init /\ fl.non_init))

Names(fs) == [j \in 1..Len(fs) |-> fs[j].n]

GetProperties(H, c, fl, sorted) ==
    Names(SelectSeq(IF sorted THEN ByName(Props(H, c)) ELSE Props(H, c), LAMBDA f : Keeps(f, fl)))
GetPropertyFields(H, c, fl) == Names(SelectSeq(Props(H, c), LAMBDA f : Keeps(f, fl)))
GetChildFields(H, c) == Names(Children(H, c))
DefaultFlags == [id |-> TRUE, origin |-> TRUE, content_id |-> TRUE, non_compare |-> FALSE, non_init |-> FALSE]
ToPropertiesDict(H, c) == GetProperties(H, c, DefaultFlags, FALSE)

(* an instance: inst.c class, inst.k[field] = node name | "none" | tuple of node names *)
RECURSIVE Flat(_)
Flat(ss) == IF ss = <<>> THEN <<>> ELSE Head(ss) \o Flat(Tail(ss))
ChildrenIn(H, inst, sorted) == IF sorted THEN ByName(Children(H, inst.c)) ELSE Children(H, inst.c)
(* <<node, field, index>>, index -1 = None; absent optionals omitted; tuple elements indexed from 0 *)
ChildNodesWithField(H, inst, sorted) ==
    LET fs == ChildrenIn(H, inst, sorted) IN
    Flat([j \in 1..Len(fs) |->
            LET v == inst.k[fs[j].n] IN
            IF fs[j].kind = "tuple" THEN [x \in 1..Len(v) |-> <<v[x], fs[j].n, x - 1>>]
            ELSE IF v = "none" THEN <<>> ELSE <<<<v, fs[j].n, 0 - 1>>>>])
ChildNodes(H, inst, sorted) == LET s == ChildNodesWithField(H, inst, sorted) IN [j \in 1..Len(s) |-> s[j][1]]
(* iter_child_fields: the field value as is *)
IterChildFields(H, inst, sorted) == LET fs == ChildrenIn(H, inst, sorted) IN [j \in 1..Len(fs) |-> <<inst.k[fs[j].n], fs[j].n>>]
=============================================================================
