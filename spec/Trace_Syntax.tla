---------------------------- MODULE Trace_Syntax ----------------------------
(***************************************************************************)
(* code -> spec for C17: recorded compile attempts of arbitrary token      *)
(* strings (not grammar-derived); accepted iff the library's verdict is    *)
(* the recognizer's.                                                       *)
(***************************************************************************)
EXTENDS Syntax, Json, IOUtils, TLCExt
Lines == ndJsonDeserialize(IOEnv.TRACE_FILE)
VARIABLE l
Accept(c) == IF c.lang = "xpath" THEN c.accepted = XAccepted(c.toks) ELSE c.accepted = PAccepted(c.toks)
Init == l = 1 /\ TLCSet(1, {})
Next == /\ l <= Len(Lines)
        /\ IF Accept(Lines[l]) THEN TRUE
           ELSE TLCSet(1, TLCGet(1) \cup {l}) /\ PrintT(ToJson([rej |-> l, info |-> <<Lines[l].lang>>]))
        /\ l' = l + 1
Done == PrintT(ToJson([rejected_total |-> Cardinality(TLCGet(1))])) /\ TLCGet(1) = {} /\ TLCGet("stats").diameter - 1 = Len(Lines)
=============================================================================
