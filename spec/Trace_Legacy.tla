---------------------------- MODULE Trace_Legacy ----------------------------
(***************************************************************************)
(* code -> spec for C18 / C19: every line is one distinct observed         *)
(* transition (pre-state, operation, outcome, post-state) of a program run *)
(* against the real legacy classes.  `clean` says that all operations      *)
(* before it succeeded and never put one node at two positions.            *)
(*   outcome "ok"       -> the C18 invariants must hold in the post-state  *)
(*   documented error   -> the C19 frame must hold between pre and post    *)
(***************************************************************************)
EXTENDS LegacyMonitor, Json, IOUtils, TLCExt
Lines == ndJsonDeserialize(IOEnv.TRACE_FILE)
VARIABLE l

Bad(c) == IF ~c.clean THEN {}
          ELSE IF c.outcome = "ok" THEN (IF NoDoublePlacement(c.post) THEN C18Clauses(c.post) ELSE {})
          ELSE C19Clauses(c.pre, c.post, c.nregpre, c.nregpost)

Init == l = 1 /\ TLCSet(1, {})
Next == /\ l <= Len(Lines)
        /\ LET b == Bad(Lines[l]) IN
           IF b = {} THEN TRUE ELSE TLCSet(1, TLCGet(1) \cup {l}) /\ PrintT(ToJson([rej |-> l, info |-> <<Lines[l].outcome, b>>]))
        /\ l' = l + 1
Done == PrintT(ToJson([rejected_total |-> Cardinality(TLCGet(1))])) /\ TLCGet(1) = {} /\ TLCGet("stats").diameter - 1 = Len(Lines)
=============================================================================
