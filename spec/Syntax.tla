------------------------------- MODULE Syntax -------------------------------
(***************************************************************************)
(* The text grammars of xpaths and patterns at token level (C17): a        *)
(* *generator* (leftmost derivation by a stack machine, plus single-token  *)
(* mutations) and an independent *recognizer* with the static side         *)
(* conditions.  TLC checks generator \subseteq recognizer and exports      *)
(* every token string reached with the verdict the documentation demands:  *)
(* accepted, or rejected with the definition error.                        *)
(*                                                                         *)
(* A token is [k |-> kind, v |-> spelling].  Kinds                         *)
(*   xpath:    sl "/"   at "@"   lb "["   rb "]"   dg digit   nm name      *)
(*   pattern:  lp rp bar star at eq lb rb arrow dollar none str nm         *)
(* A name token carries its spelling; whether a name is a node class, an   *)
(* unknown class or a non-node serializable class is a property of the     *)
(* spelling (NodeClasses / the rest).  A str token whose spelling is in    *)
(* BadRegex does not compile.                                              *)
(***************************************************************************)
EXTENDS Sequences, Naturals, FiniteSets, TLC

CONSTANTS NodeClasses,   \* spellings that name node classes
          BadRegex,      \* spellings of str tokens that are not valid regular expressions
          KeyNames       \* spellings that lex as capture keys (lower case letters / underscores)

T(k, v) == [k |-> k, v |-> v]
Kinds(s) == [j \in 1..Len(s) |-> s[j].k]

---------------------------------------------------------------------------
(* XPATH recognizer.   xpath: element* self ; element: "/" field? index? class? ;
   self: "/" field? index? class ; field: "@" NAME ; index: "[" DIGIT* "]" ; class: NAME.
   A text that does not start with "/" is read as if "//" preceded it. *)

(* parse one segment starting at position i (just after its "/"); returns
   [ok, next, f, i, c] -- f/c spellings or "", idx -1 for none *)
RECURSIVE Digits(_, _, _)
Digits(s, i, acc) == IF i <= Len(s) /\ s[i].k = "dg" THEN Digits(s, i + 1, acc \o <<s[i].v>>) ELSE [next |-> i, ds |-> acc]

XSeg(s, i) ==
    LET hasF == i + 1 <= Len(s) /\ s[i].k = "at" /\ s[i + 1].k = "nm"
        badAt == i <= Len(s) /\ s[i].k = "at" /\ ~hasF
        f == IF hasF THEN s[i + 1].v ELSE ""
        j == IF hasF THEN i + 2 ELSE i
        hasLB == j <= Len(s) /\ s[j].k = "lb"
        dg == IF hasLB THEN Digits(s, j + 1, <<>>) ELSE [next |-> j, ds |-> <<>>]
        closed == hasLB /\ dg.next <= Len(s) /\ s[dg.next].k = "rb"
        k == IF hasLB THEN dg.next + 1 ELSE j
        hasC == k <= Len(s) /\ s[k].k = "nm"
        c == IF hasC THEN s[k].v ELSE ""
        nxt == IF hasC THEN k + 1 ELSE k
    IN [ok |-> ~badAt /\ (hasLB => closed), next |-> nxt, f |-> f, ds |-> dg.ds, hasLB |-> hasLB, c |-> c]

RECURSIVE XSegs(_, _, _)
(* segments from position i on; every segment starts with "/" (first: optional when relative) *)
XSegs(s, i, acc) ==
    IF i > Len(s) THEN [ok |-> TRUE, segs |-> acc]
    ELSE IF s[i].k # "sl" THEN [ok |-> FALSE, segs |-> acc]
    ELSE LET g == XSeg(s, i + 1) IN
         IF ~g.ok THEN [ok |-> FALSE, segs |-> acc] ELSE XSegs(s, g.next, Append(acc, g))

XParse(s) ==      \* the relative spelling: prepend "//"
    IF s = <<>> THEN [ok |-> FALSE, segs |-> <<>>]
    ELSE IF s[1].k = "sl" THEN XSegs(s, 1, <<>>)
    ELSE XSegs(<<T("sl", "/"), T("sl", "/")>> \o s, 1, <<>>)

XSyntaxOk(s) == LET p == XParse(s) IN p.ok /\ p.segs # <<>> /\ p.segs[Len(p.segs)].c # ""
XClassesOk(s) == LET p == XParse(s) IN \A j \in 1..Len(p.segs) : p.segs[j].c = "" \/ p.segs[j].c \in NodeClasses
XAccepted(s) == XSyntaxOk(s) /\ XClassesOk(s)

(* the abstract path an accepted text denotes: empty segments turn the next step into "anywhere" *)
RECURSIVE DigitsVal(_, _)
DigitsVal(ds, acc) == IF ds = <<>> THEN acc ELSE DigitsVal(Tail(ds), acc * 10 + Head(ds))
(* a segment with nothing at all -- not even "[]", which is a step of its own meaning "any index" *)
IsEmptySeg(g) == g.f = "" /\ ~g.hasLB /\ g.c = ""
RECURSIVE XSteps(_, _, _, _)
XSteps(segs, j, pendingAny, acc) ==
    IF j > Len(segs) THEN acc
    ELSE LET g == segs[j] IN
         IF IsEmptySeg(g) /\ j < Len(segs)
         THEN XSteps(segs, j + 1, TRUE, acc)
         ELSE XSteps(segs, j + 1, FALSE,
                     Append(acc, [any |-> pendingAny,
                                  f |-> IF g.f = "" THEN "none" ELSE g.f,
                                  i |-> IF g.ds = <<>> THEN 0 - 1 ELSE DigitsVal(g.ds, 0),
                                  c |-> IF g.c = "" THEN "none" ELSE g.c]))
XStepsOf(s) == XSteps(XParse(s).segs, 1, FALSE, <<>>)

---------------------------------------------------------------------------
(* PATTERN recognizer (recursive descent).  Each parser returns the next position, 0 = failure.
   tree: "(" class_spec field_spec* ")" ; class_spec: "*" | NAME ("|" NAME)* ;
   field_spec: "@" NAME ("=" (sequence | value))? capture? ;
   sequence: "[" (value capture?)* ("*" capture?)? "]" ;
   value: tree | "$" NAME | None | STR ;  capture: "->" NAME  *)
K(s, i) == IF i >= 1 /\ i <= Len(s) THEN s[i].k ELSE "eof"
(* where a class or field name is expected the keyword None lexes as a plain name *)
IsName(s, i) == K(s, i) \in {"nm", "none"}

IsKeyAt(s, i) == K(s, i) = "nm" /\ s[i].v \in KeyNames
PCapture(s, i) == IF K(s, i) = "arrow" THEN (IF IsKeyAt(s, i + 1) THEN i + 2 ELSE 0) ELSE i   \* optional

RECURSIVE PClassTail(_, _)
PClassTail(s, i) == IF K(s, i) = "bar" THEN (IF IsName(s, i + 1) THEN PClassTail(s, i + 2) ELSE 0) ELSE i
PClassSpec(s, i) == IF K(s, i) = "star" THEN i + 1 ELSE IF IsName(s, i) THEN PClassTail(s, i + 1) ELSE 0

RECURSIVE PTree(_, _), PValue(_, _), PFields(_, _), PSeqItems(_, _)
PValue(s, i) ==
    IF K(s, i) = "lp" THEN PTree(s, i)
    ELSE IF K(s, i) = "dollar" THEN (IF IsKeyAt(s, i + 1) THEN i + 2 ELSE 0)
    ELSE IF K(s, i) \in {"none", "str"} THEN i + 1
    ELSE 0
PSeqItems(s, i) ==       \* after "[": (value capture?)* ("*" capture?)? "]"
    IF K(s, i) = "rb" THEN i + 1
    ELSE IF K(s, i) = "star"
         THEN LET j == PCapture(s, i + 1) IN IF j # 0 /\ K(s, j) = "rb" THEN j + 1 ELSE 0
    ELSE LET j == PValue(s, i) IN
         IF j = 0 THEN 0 ELSE LET k == PCapture(s, j) IN IF k = 0 THEN 0 ELSE PSeqItems(s, k)
PFields(s, i) ==         \* field_spec* ")"
    IF K(s, i) = "rp" THEN i + 1
    ELSE IF K(s, i) = "at" /\ IsName(s, i + 1)
         THEN LET j == IF K(s, i + 2) = "eq"
                       THEN (IF K(s, i + 3) = "lb" THEN PSeqItems(s, i + 4) ELSE PValue(s, i + 3))
                       ELSE i + 2
              IN IF j = 0 THEN 0 ELSE LET k == PCapture(s, j) IN IF k = 0 THEN 0 ELSE PFields(s, k)
    ELSE 0
PTree(s, i) == IF K(s, i) = "lp" THEN (LET j == PClassSpec(s, i + 1) IN IF j = 0 THEN 0 ELSE PFields(s, j)) ELSE 0

PSyntaxOk(s) == PTree(s, 1) = Len(s) + 1

(* static side conditions, on the token string of a syntactically correct pattern *)
ClassPos(s) == {i \in 1..Len(s) : IsName(s, i) /\ K(s, i - 1) \in {"lp", "bar"}}
CapPos(s) == {i \in 1..Len(s) : s[i].k = "nm" /\ K(s, i - 1) = "arrow"}
VarPos(s) == {i \in 1..Len(s) : s[i].k = "nm" /\ K(s, i - 1) = "dollar"}
PClassesOk(s) == \A i \in ClassPos(s) : s[i].v \in NodeClasses
PCapsUnique(s) == \A i, j \in CapPos(s) : s[i].v = s[j].v => i = j
(* a capture is registered when its "-> name" has been read; for a field / sequence capture that is
   after the whole value, so text position of the name token is the order *)
PVarsOk(s) == \A i \in VarPos(s) : \E j \in CapPos(s) : j < i /\ s[j].v = s[i].v
PRegexOk(s) == \A i \in 1..Len(s) : s[i].k = "str" => s[i].v \notin BadRegex
PAccepted(s) == PSyntaxOk(s) /\ PClassesOk(s) /\ PCapsUnique(s) /\ PVarsOk(s) /\ PRegexOk(s)
=============================================================================
