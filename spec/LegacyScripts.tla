---------------------------- MODULE LegacyScripts ----------------------------
(***************************************************************************)
(* C18 / C19 generator: every *program* of up to MaxLen public legacy      *)
(* operations.  A program is a sequence of operation descriptors whose     *)
(* arguments are handles (1, 2, ...) of the nodes earlier operations       *)
(* returned; the generator only tracks the static class of every handle.   *)
(* What an operation does is decided by the library; the recorded          *)
(* execution is judged by LegacyMonitor.tla.                               *)
(*                                                                         *)
(*  create(c, atom, kids, mode)   mode: plain | detached | unique          *)
(*  attach(a) detach(a) detach_self(a)                                     *)
(*  replace_prop(a, atom)  replace_kids(a, kids)  replace_bad(a)           *)
(*  replace_with(a, b)  replace_with_none(a)                               *)
(*  duplicate(a, detached)                                                 *)
(*  tvisit(a, atom, rule)   an ASTTransformVisitor run on a                *)
(*  texec(a, atom, rule)    an ASTTransformer executed on a                *)
(*     rule (in the mode slot) says what happens to every leaf-like node   *)
(*     whose property a is the given atom: keep | bump (replace(a=..)) |   *)
(*     fresh (a newly built leaf) | drop (None) | boom (the rule raises)   *)
(***************************************************************************)
EXTENDS Sequences, Naturals, FiniteSets, TLC, Json

CONSTANTS MaxLen, MaxHandles, GenClasses, MaxKids, Ops, Modes, DupModes, Atoms, TRules

VARIABLES prog, cls      \* the program so far; class of each handle
vars == <<prog, cls>>

H == 1..Len(cls)
Op(op, c, a, b, kids, atom, mode) == [op |-> op, c |-> c, a |-> a, b |-> b, kids |-> kids, atom |-> atom, mode |-> mode]

LeafLike == {"LLeaf", "LSub"}
IsLeaf(c) == c \in LeafLike
(* kid lists a class accepts: sequences of handles *)
KidLists(c) ==
    IF IsLeaf(c) THEN {<<>>}
    ELSE IF c = "LUnary" THEN {<<x>> : x \in H}
    ELSE IF c = "LOpt" THEN {<<>>} \cup {<<x>> : x \in {y \in H : IsLeaf(cls[y])}}
    ELSE UNION {[1..n -> H] : n \in 0..MaxKids}          \* LMany.items / LList.elems

Creates == {Op("create", c, 0, 0, <<>>, at, m) : c \in {x \in GenClasses : IsLeaf(x)}, at \in Atoms, m \in Modes}
           \cup UNION {{Op("create", c, 0, 0, k, 0, m) : k \in KidLists(c), m \in Modes} : c \in {x \in GenClasses : ~IsLeaf(x)}}

Step(o) ==
    /\ Len(prog) < MaxLen
    /\ o.op \in Ops
    /\ prog' = Append(prog, o)
    /\ cls' = IF o.op = "create" THEN Append(cls, o.c)
              ELSE IF o.op \in {"replace_prop", "replace_kids", "duplicate", "tvisit", "texec"} THEN Append(cls, cls[o.a])
              ELSE cls
    /\ Len(cls') <= MaxHandles

Next ==
    \/ \E o \in Creates : Step(o)
    \/ \E a \in H :
         \/ Step(Op("attach", "", a, 0, <<>>, 0, ""))
         \/ Step(Op("detach", "", a, 0, <<>>, 0, ""))
         \/ Step(Op("detach_self", "", a, 0, <<>>, 0, ""))
         \/ IsLeaf(cls[a]) /\ \E at \in Atoms : Step(Op("replace_prop", "", a, 0, <<>>, at, ""))
         \/ ~IsLeaf(cls[a]) /\ \E k \in KidLists(cls[a]) : Step(Op("replace_kids", "", a, 0, k, 0, ""))
         \/ Step(Op("replace_bad", "", a, 0, <<>>, 0, ""))
         \/ \E b \in H \ {a} : Step(Op("replace_with", "", a, b, <<>>, 0, ""))
         \/ Step(Op("replace_with_none", "", a, 0, <<>>, 0, ""))
         \/ \E d \in DupModes : Step(Op("duplicate", "", a, 0, <<>>, 0, d))
         \/ \E r \in TRules, at \in Atoms : Step(Op("tvisit", "", a, 0, <<>>, at, r))
         \/ \E r \in TRules \ {"boom"}, at \in Atoms : Step(Op("texec", "", a, 0, <<>>, at, r))

Init == prog = <<>> /\ cls = <<>>

(* export maximal programs only (every prefix is executed on the way) *)
EmitInv == (Len(prog) = MaxLen) => PrintT(ToJson([m |-> "legacy-script", prog |-> prog]))
=============================================================================
