--------------------------- MODULE Trace_Pattern ---------------------------
(***************************************************************************)
(* code -> spec for C08: recorded NodeMatcher / MultiPatternMatcher runs   *)
(* on real nodes; a line is accepted iff verdict and captures equal those  *)
(* of Pattern!Match / Pattern!Multi.  Captures are logged as values        *)
(* [k, ...] in the shape the spec uses.                                    *)
(***************************************************************************)
EXTENDS Pattern, Json, IOUtils, TLCExt

Lines == ndJsonDeserialize(IOEnv.TRACE_FILE)
VARIABLE l

(* captures compared name by name; JSON gives records for both sides *)
Known(v) == v.k # "atom" \/ v.pool \in SimplePools
NoneLike(v) == v.k = "none" \/ (v.k = "atom" /\ v.pool \in SimplePools /\ AtomType(v) = "none")
SameVal(x, y) ==        \* x recorded, y from the spec
    \/ NoneLike(x) /\ NoneLike(y)
    \/ /\ x.k = y.k /\ Known(x) /\ Known(y)
       /\ (x.k = "node" => x.s = y.s)
       /\ (x.k = "tuple" => x.ss = y.ss)
       /\ (x.k = "atom" => AtomType(x) = AtomType(y) /\ AtomStr(x) = AtomStr(y))
SameCaps(c1, c2) == DOMAIN c1 = DOMAIN c2 /\ \A nm \in DOMAIN c1 : SameVal(c1[nm], c2[nm])

Accept(c) ==
    IF c.op = "match"
    THEN LET r == Match(c.p, c.h, c.n) IN
         /\ WellFormed(c.p)
         /\ c.ok = r.ok
         /\ SameCaps(c.caps, r.caps)
    ELSE LET r == Multi(c.rules, c.h, c.n) IN
         /\ c.rule = r.rule
         /\ SameCaps(c.caps, r.caps)

Init == l = 1 /\ TLCSet(1, {})
Next == /\ l <= Len(Lines)
        /\ IF Accept(Lines[l]) THEN TRUE
           ELSE TLCSet(1, TLCGet(1) \cup {l}) /\ PrintT(ToJson([rej |-> l, info |-> <<Lines[l].op>>]))
        /\ l' = l + 1
Done == PrintT(ToJson([rejected_total |-> Cardinality(TLCGet(1))])) /\ TLCGet(1) = {} /\ TLCGet("stats").diameter - 1 = Len(Lines)
=============================================================================
