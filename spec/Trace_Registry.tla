--------------------------- MODULE Trace_Registry ---------------------------
(***************************************************************************)
(* code -> spec for C03 / C14 / C10: validates histories recorded from the *)
(* real library (random drivers, 10-25 objects, real digest sizes 1, 2, 8) *)
(* against the Registry machine.  Every line is one public call with its   *)
(* arguments (slot names given by the recorder), the digests (base ids, as *)
(* class numbers) of the nodes it created, its result and the projected    *)
(* state alpha(world) after the call.  The step is accepted iff the        *)
(* registry primitives of module Registry, applied as the operation        *)
(* prescribes, produce exactly the logged post-state.  Lines of many       *)
(* traces are concatenated; an "init" line resets the state.               *)
(***************************************************************************)
EXTENDS Registry, Json, IOUtils, TLCExt

Lines == ndJsonDeserialize(IOEnv.TRACE_FILE)

VARIABLES l,      \* next line
          bk,     \* id key (what was hashed) -> digest class, for the determinism clause
          skip    \* the current trace was rejected: its remaining lines are not judged

tvars == <<obj, held, reg, ret, hist, blobs, l, bk, skip>>

Fn(x) == x   \* JSON objects arrive as records / functions already

(* all digests created by an event, in creation order *)
RECURSIVE DupT(_, _, _, _)
(* duplicate with logged slot names `names` and digests `bases` (post-order) *)
DupT(st, n, names, bases) ==
    \* returns [st, res, used] where used = number of names consumed
    LET c == st.obj[n].c
        fs == ChildFields[c]
        \* fold over fields and elements
        RECURSIVE Elems(_, _, _)
        Elems(acc, ss, j) ==   \* acc = [st, res (seq), used]
            IF j > Len(ss) THEN acc
            ELSE LET d == DupT(acc.st, ss[j], SubSeq(names, acc.used + 1, Len(names)),
                                               SubSeq(bases, acc.used + 1, Len(bases)))
                 IN Elems([st |-> d.st, res |-> Append(acc.res, d.res), used |-> acc.used + d.used], ss, j + 1)
        RECURSIVE Flds(_, _)
        Flds(acc, j) ==       \* acc = [st, k, used]
            IF j > Len(fs) THEN acc
            ELSE LET f == fs[j]
                     v == st.obj[n].k[f]
                     isq == IsSeqKind(Kind[c][f])
                     ss == IF isq THEN v ELSE IF v = NoSlot THEN <<>> ELSE <<v>>
                     e == Elems([st |-> acc.st, res |-> <<>>, used |-> acc.used], ss, 1)
                     val == IF isq THEN e.res ELSE IF v = NoSlot THEN NoSlot ELSE e.res[1]
                 IN Flds([st |-> e.st, k |-> (f :> val) @@ acc.k, used |-> e.used], j + 1)
        kf == Flds([st |-> st, k |-> <<>>, used |-> 0], 1)
        s == names[kf.used + 1]
        rec == st.obj[n]
        st2 == CreateB(kf.st, [c |-> rec.c, p |-> rec.p, k |-> kf.k, o |-> rec.o], s, bases[kf.used + 1])
    IN [st |-> st2, res |-> s, used |-> kf.used + 1]

(* deserialization with logged slot names / digests for the nodes it creates (creation order) *)
RECURSIVE DesT(_, _, _, _, _)
DesT(st, bh, n, names, bases) ==     \* -> [st, res, used]
    LET id == bh[n].id
        hit == {t \in st.reg : st.obj[t].id = id}
    IN IF hit # {} THEN [st |-> st, res |-> CHOOSE x \in hit : TRUE, used |-> 0]
       ELSE
        LET c == bh[n].c
            fs == ChildFields[c]
            RECURSIVE Elems(_, _, _)
            Elems(acc, ss, j) ==
                IF j > Len(ss) THEN acc
                ELSE LET d == DesT(acc.st, bh, ss[j], SubSeq(names, acc.used + 1, Len(names)),
                                                        SubSeq(bases, acc.used + 1, Len(bases)))
                     IN Elems([st |-> d.st, res |-> Append(acc.res, d.res), used |-> acc.used + d.used], ss, j + 1)
            RECURSIVE Flds(_, _)
            Flds(acc, j) ==
                IF j > Len(fs) THEN acc
                ELSE LET f == fs[j]
                         v == bh[n].k[f]
                         isq == IsSeqKind(Kind[c][f])
                         ss == IF isq THEN v ELSE IF v = NoSlot THEN <<>> ELSE <<v>>
                         e == Elems([st |-> acc.st, res |-> <<>>, used |-> acc.used], ss, 1)
                         val == IF isq THEN e.res ELSE IF v = NoSlot THEN NoSlot ELSE e.res[1]
                     IN Flds([st |-> e.st, k |-> (f :> val) @@ acc.k, used |-> e.used], j + 1)
            kf == Flds([st |-> st, k |-> <<>>, used |-> 0], 1)
        IN IF kf.used + 1 > Len(names) THEN [st |-> kf.st, res |-> NoSlot, used |-> kf.used + 1]   \* log too short
           ELSE
            LET s == names[kf.used + 1]
                st1 == CreateB(kf.st, [c |-> c, p |-> bh[n].p, k |-> kf.k, o |-> bh[n].o], s, bases[kf.used + 1])
                taken == id \in UsedIds(st1.obj, st1.reg \ {s})
                st2 == IF st1.obj[s].id = id \/ taken THEN st1
                       ELSE Register([PopId(st1, st1.obj[s].id) EXCEPT !.obj[s].id = id], s)
            IN [st |-> st2, res |-> s, used |-> kf.used + 1]

(* a payload received from elsewhere (another process): logged by value, ids as <<digest class, suffix>> *)
Payload(pl) == [h |-> [n \in DOMAIN pl.h |-> [c |-> pl.h[n].c, p |-> pl.h[n].p, k |-> pl.h[n].k, o |-> pl.h[n].o,
                                                 id |-> <<pl.h[n].idb, pl.h[n].idn>>]],
                root |-> pl.root]

MarkDet(st, T) == [st EXCEPT !.obj = [s \in DOMAIN st.obj |->
                                        IF s \in T THEN [st.obj[s] EXCEPT !.det = TRUE] ELSE st.obj[s]]]

ChgRec(rec, chg) ==
    LET r == [c |-> rec.c, p |-> rec.p, k |-> rec.k, o |-> rec.o] IN
    IF chg[1] = "prop" THEN [r EXCEPT !.p[chg[2]] = chg[3]]
    ELSE IF chg[1] = "kid" THEN [r EXCEPT !.k[chg[2]] = chg[3]]
    ELSE r

(* the state after event e, as [st, held] *)
After(e) ==
    LET st == St IN
    CASE e.op = "new" ->
           [st |-> CreateB(st, e.r, e.res, e.bases[1]), held |-> held \cup {e.res}]
      [] e.op = "dcreplace" ->
           [st |-> CreateB(st, ChgRec(obj[e.src], e.chg), e.res, e.bases[1]), held |-> held \cup {e.res}]
      [] e.op = "replace" ->
           LET st0 == PopFor(st, e.src)
               st1 == CreateB(st0, ChgRec(obj[e.src], e.chg), e.res, e.bases[1])
           IN [st |-> MarkDet(st1, {e.src}), held |-> held \cup {e.res}]
      [] e.op = "replace_fails" -> [st |-> st, held |-> held]
      [] e.op = "dup" ->
           LET d == DupT(st, e.src, e.news, e.bases) IN [st |-> d.st, held |-> held \cup {d.res}]
      [] e.op = "detach" ->
           [st |-> MarkDet(PopAll(st, Reach(obj, e.src)), Reach(obj, e.src)), held |-> held]
      [] e.op = "detach_self" ->
           [st |-> MarkDet(PopFor(st, e.src), {e.src}), held |-> held]
      [] e.op = "deser" ->
           LET d == DesT(st, blobs[e.blob].h, blobs[e.blob].root, e.news, e.bases)
           IN [st |-> d.st, held |-> IF d.res = NoSlot THEN held ELSE held \cup {d.res}]
      [] e.op \in {"ser", "load", "forget"} -> [st |-> st, held |-> held]
      [] e.op = "dropall" -> [st |-> st, held |-> {}]
      [] e.op = "drop" -> [st |-> st, held |-> held \ {e.src}]
      [] e.op = "hold" -> [st |-> st, held |-> held \cup {e.src}]

ToSet(s) == {s[i] : i \in DOMAIN s}

LookupT(o2, r2, s) == IF \E t \in r2 : o2[t].id = o2[s].id
                      THEN CHOOSE t \in r2 : o2[t].id = o2[s].id ELSE NoSlot

(* which clauses of the logged post-state disagree with the spec state *)
Diff(e, o2, h2, r2) ==
    LET P == e.post
        alive == DOMAIN o2
    IN (IF ToSet(P.live) = alive THEN {} ELSE {"live-set"})
       \cup (IF ToSet(P.live) = alive /\ ToSet(P.reg) # r2 THEN {"registered"} ELSE {})
       \cup (IF ToSet(P.live) = alive /\ \E s \in alive : P.look[s] # LookupT(o2, r2, s) THEN {"lookup"} ELSE {})
       \cup (IF ToSet(P.live) = alive /\ \E s \in alive :
                   \/ P.objs[s].c # o2[s].c
                   \/ \E f \in Range(PropFields[o2[s].c]) : P.objs[s].p[f] # o2[s].p[f]
                   \/ \E f \in Range(ChildFields[o2[s].c]) : P.objs[s].k[f] # o2[s].k[f]
                   \/ P.objs[s].o # o2[s].o
             THEN {"node-content"} ELSE {})
       \cup (IF ToSet(P.live) = alive /\ \E s, t \in alive :
                   s # t /\ ((o2[s].id = o2[t].id) # (<<s, t>> \in ToSet(P.sameid)))
             THEN {"id-partition"} ELSE {})
       \cup (IF e.op = "deser" /\ e.res # DesT(St, blobs[e.blob].h, blobs[e.blob].root, e.news, e.bases).res
             THEN {"deser-result"} ELSE {})
       \cup (IF e.op = "detach_self" /\ e.popped # (PopFor(St, e.src).reg # reg) THEN {"detach_self-result"} ELSE {})

(* digests: the same key always hashes to the same digest; with an injective digest (size 8)
   different keys get different digests *)
NewKeys(e, o2) == IF e.op \in {"new", "replace", "dcreplace"} THEN <<<<e.bases[1], IdKeyOf(o2, o2[e.res])>>>>
                  ELSE IF e.op = "dup" THEN [j \in 1..Len(e.news) |-> <<e.bases[j], IdKeyOf(o2, o2[e.news[j]])>>]
                  ELSE IF e.op = "deser" /\ e.cbases
                       THEN [j \in 1..Len(e.news) |-> <<e.bases[j], IdKeyOf(o2, o2[e.news[j]])>>]
                  ELSE <<>>
RECURSIVE BkAdd(_, _, _)
BkAdd(m, ks, inj) ==    \* m: id key -> digest class;  -> [m, ok]
    IF ks = <<>> THEN [m |-> m, ok |-> TRUE]
    ELSE LET b == Head(ks)[1]
             K == Head(ks)[2]
             okh == IF K \in DOMAIN m THEN m[K] = b          \* the same input hashes the same every time
                    ELSE ~inj \/ \A x \in DOMAIN m : m[x] # b   \* an 8-byte digest does not collide
             rest == BkAdd(IF K \in DOMAIN m THEN m ELSE (K :> b) @@ m, Tail(ks), inj)
         IN [m |-> rest.m, ok |-> okh /\ rest.ok]

TInit == /\ obj = <<>> /\ held = {} /\ reg = {} /\ hist = <<>> /\ blobs = <<>>
        /\ ret = [op |-> "init", res |-> NoSlot, src |-> NoSlot]
        /\ l = 1 /\ bk = <<>> /\ skip = FALSE
        /\ TLCSet(1, {})

Reject(why) == TLCSet(1, TLCGet(1) \cup {l}) /\ PrintT(ToJson([rej |-> l, info |-> <<Lines[l].tid, Lines[l].seq, why>>]))

TNext ==
    /\ l <= Len(Lines)
    /\ l' = l + 1
    /\ hist' = hist
    /\ LET e == Lines[l] IN
       IF e.op = "init"
       THEN /\ obj' = <<>> /\ held' = {} /\ reg' = {} /\ bk' = <<>> /\ skip' = FALSE /\ blobs' = <<>>
            /\ ret' = [op |-> "init", res |-> NoSlot, src |-> NoSlot]
       ELSE IF skip THEN UNCHANGED <<obj, held, reg, bk, skip, ret, blobs>>
       ELSE LET a == After(e)
                alive == ReachAll(a.st.obj, a.held)
                o2 == [s \in alive |-> a.st.obj[s]]
                r2 == a.st.reg \cap alive
                d == Diff(e, o2, a.held, r2)
                kb == BkAdd(bk, NewKeys(e, a.st.obj), e.inj)
                bad == d \cup (IF kb.ok THEN {} ELSE {"id-deterministic"})
            IN /\ IF bad = {} THEN TRUE ELSE Reject(bad)
               \* continue from the *logged* world so that one rejection does not hide the rest:
               \* the spec state is what the spec computed (the logged one is only compared)
               /\ skip' = (bad # {})
               /\ blobs' = IF e.op = "ser" THEN Append(blobs, Snapshot(e.src))
                            ELSE IF e.op = "load" THEN Append(blobs, Payload(e.payload))
                            ELSE blobs
               /\ obj' = o2 /\ held' = a.held /\ reg' = r2 /\ bk' = kb.m
               /\ ret' = [op |-> e.op, res |-> NoSlot, src |-> NoSlot]

Done == PrintT(ToJson([rejected_total |-> Cardinality(TLCGet(1))])) /\ TLCGet(1) = {} /\ TLCGet("stats").diameter - 1 = Len(Lines)

(* the C03 invariants evaluated on every state of the validated behaviour *)
TraceRegExact == RegExact
TraceIdsUnique == IdsUnique
=============================================================================
