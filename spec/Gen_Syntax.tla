----------------------------- MODULE Gen_Syntax -----------------------------
(***************************************************************************)
(* Generator side of C17: leftmost derivations of the two grammars by a    *)
(* stack machine (every grammatical token string up to MaxTok tokens over  *)
(* small terminal alphabets), then one single-token mutation (delete,      *)
(* duplicate, swap neighbours, replace by any alphabet token; for xpaths   *)
(* also the relative spelling).  Every complete string is exported with    *)
(* the verdict of the independent recognizer of module Syntax.             *)
(***************************************************************************)
EXTENDS Syntax, TreeQ, Json

CONSTANTS Lang,        \* "xpath" or "pattern"
          MaxTok,      \* longest derived string
          MutMax,      \* strings up to this length are mutated
          ClassNames, FieldNames, Digs, StrNames,  \* terminal alphabets (KeyNames from Syntax)
          SplitNames,                              \* <<ab, a, b>>: the name ab read as the two names a b
          TestHeap, TestRoot                       \* a fixed tree on which accepted xpaths are evaluated

VARIABLES toks, stack, phase
vars == <<toks, stack, phase>>

N(x) == [nt |-> x]              \* nonterminal on the stack
IsNT(x) == "nt" \in DOMAIN x

(* productions: nonterminal -> set of right-hand sides (sequences of tokens / nonterminals) *)
Prod(x) ==
    CASE x = "XP"    -> {<<N("EL"), N("XP")>>, <<N("SELF")>>}
      [] x = "EL"    -> {<<T("sl", "/"), N("Fo"), N("Io"), N("Co")>>}
      [] x = "SELF"  -> {<<T("sl", "/"), N("Fo"), N("Io"), N("C")>>}
      [] x = "Fo"    -> {<<>>} \cup {<<T("at", "@"), T("nm", f)>> : f \in FieldNames}
      [] x = "Io"    -> {<<>>, <<T("lb", "["), N("Ds"), T("rb", "]")>>}
      [] x = "Ds"    -> {<<>>} \cup {<<T("dg", d), N("Ds")>> : d \in Digs}
      [] x = "Co"    -> {<<>>, <<N("C")>>}
      [] x = "C"     -> {<<T("nm", c)>> : c \in ClassNames}
      [] x = "TREE"  -> {<<T("lp", "("), N("CS"), N("FS"), T("rp", ")")>>}
      [] x = "CS"    -> {<<T("star", "*")>>} \cup {<<T("nm", c), N("CT")>> : c \in ClassNames}
      [] x = "CT"    -> {<<>>} \cup {<<T("bar", "|"), T("nm", c), N("CT")>> : c \in ClassNames}
      [] x = "FS"    -> {<<>>, <<N("FSPEC"), N("FS")>>}
      [] x = "FSPEC" -> {<<T("at", "@"), T("nm", f), N("VO"), N("CO")>> : f \in FieldNames}
      [] x = "VO"    -> {<<>>, <<T("eq", "="), N("VAL")>>, <<T("eq", "="), N("SEQ")>>}
      [] x = "CO"    -> {<<>>} \cup {<<T("arrow", "->"), T("nm", k)>> : k \in KeyNames}
      [] x = "SEQ"   -> {<<T("lb", "["), N("ITEMS"), T("rb", "]")>>}
      [] x = "ITEMS" -> {<<>>, <<T("star", "*"), N("CO")>>, <<N("VAL"), N("CO"), N("ITEMS")>>}
      [] x = "VAL"   -> {<<N("TREE")>>, <<T("none", "None")>>} \cup {<<T("dollar", "$"), T("nm", k)>> : k \in KeyNames}
                          \cup {<<T("str", r)>> : r \in StrNames}

Start == IF Lang = "xpath" THEN N("XP") ELSE N("TREE")

(* fewest tokens a stack can still produce (prunes derivations that cannot finish in time) *)
MinLen(x) == IF ~IsNT(x) THEN 1
             ELSE CASE x.nt \in {"XP", "SELF", "EL"} -> IF x.nt = "EL" THEN 1 ELSE 2
                    [] x.nt \in {"C"} -> 1
                    [] x.nt = "TREE" -> 3
                    [] x.nt = "CS" -> 1
                    [] x.nt = "FSPEC" -> 2
                    [] x.nt = "SEQ" -> 2
                    [] x.nt = "VAL" -> 1
                    [] OTHER -> 0
RECURSIVE MinStack(_)
MinStack(st) == IF st = <<>> THEN 0 ELSE MinLen(Head(st)) + MinStack(Tail(st))

Derive ==
    /\ phase = "derive" /\ stack # <<>>
    /\ LET x == Head(stack) IN
       IF IsNT(x)
       THEN \E rhs \in Prod(x.nt) :
              /\ Len(toks) + MinStack(rhs \o Tail(stack)) <= MaxTok
              /\ stack' = rhs \o Tail(stack) /\ toks' = toks /\ phase' = "derive"
       ELSE /\ toks' = Append(toks, x) /\ stack' = Tail(stack) /\ phase' = "derive"

Finish == /\ phase = "derive" /\ stack = <<>> /\ phase' = "done" /\ UNCHANGED <<toks, stack>>

Alphabet == IF Lang = "xpath"
            THEN {T("sl", "/"), T("at", "@"), T("lb", "["), T("rb", "]")} \cup {T("dg", d) : d \in Digs}
                 \cup {T("nm", c) : c \in ClassNames \cup FieldNames}
            ELSE {T("lp", "("), T("rp", ")"), T("bar", "|"), T("star", "*"), T("at", "@"), T("eq", "="), T("lb", "["),
                  T("rb", "]"), T("arrow", "->"), T("dollar", "$"), T("none", "None")}
                 \cup {T("nm", c) : c \in ClassNames \cup FieldNames \cup KeyNames} \cup {T("str", r) : r \in StrNames}

Del(s, i) == SubSeq(s, 1, i - 1) \o SubSeq(s, i + 1, Len(s))
Dup(s, i) == SubSeq(s, 1, i) \o SubSeq(s, i, Len(s))
Swap(s, i) == SubSeq(s, 1, i - 1) \o <<s[i + 1], s[i]>> \o SubSeq(s, i + 2, Len(s))
Repl(s, i, t) == [s EXCEPT ![i] = t]

Mutate ==
    /\ phase = "done" /\ Len(toks) <= MutMax
    /\ phase' = "mutated" /\ stack' = stack
    /\ \/ \E i \in 1..Len(toks) : toks' = Del(toks, i) \/ toks' = Dup(toks, i)
       \/ \E i \in 1..(Len(toks) - 1) : toks' = Swap(toks, i)
       \/ \E i \in 1..Len(toks), t \in Alphabet : toks' = Repl(toks, i, t)
       \/ (Lang = "xpath" /\ Len(toks) > 2 /\ toks[1].k = "sl" /\ toks[2].k = "sl" /\ toks' = SubSeq(toks, 3, Len(toks)))
       \* one word split in two: the texts differ only by white space between word characters
       \/ \E i \in 1..Len(toks), sp \in SplitNames :
             /\ toks[i].k = "nm" /\ toks[i].v = sp[1]
             /\ toks' = SubSeq(toks, 1, i - 1) \o <<T("nm", sp[2]), T("nm", sp[3])>> \o SubSeq(toks, i + 1, Len(toks))

Init == toks = <<>> /\ stack = <<Start>> /\ phase = "derive"
Next == Derive \/ Finish \/ Mutate

Accepted == IF Lang = "xpath" THEN XAccepted(toks) ELSE PAccepted(toks)
SyntaxOk == IF Lang = "xpath" THEN XSyntaxOk(toks) ELSE PSyntaxOk(toks)

(* MC: everything the grammar derives is recognized *)
GenInRec == phase = "done" => SyntaxOk

Case == [m |-> "syntax", lang |-> Lang, toks |-> toks, mut |-> phase = "mutated", accepted |-> Accepted,
         syntax |-> SyntaxOk,
         steps |-> IF Lang = "xpath" /\ Accepted THEN XStepsOf(toks) ELSE <<>>,
         found |-> IF Lang = "xpath" /\ Accepted THEN FindAll(TestHeap, TestRoot, XStepsOf(toks)) ELSE {}]
EmitInv == phase \in {"done", "mutated"} => PrintT(ToJson(Case))

(* leading whitespace / an empty text are outside the statement: not generated *)
=============================================================================
