---------------------------- MODULE Gen_Registry ----------------------------
(***************************************************************************)
(* Registry machine instance for TLC: slot symmetry, history export.      *)
(* EmitAct is an ACTION_CONSTRAINT: for every transition TLC generates it  *)
(* prints the witness history (events, not part of the VIEW) together with *)
(* the abstract post-state, so every edge of the reachable graph is        *)
(* replayed against the library once, behind a shortest witness prefix.    *)
(***************************************************************************)
EXTENDS Registry, Json

CONSTANT MaxDepth

Sym == Permutations(Slots)

Lookup(o2, r2, s) == IF \E t \in r2 : o2[t].id = o2[s].id
                     THEN CHOOSE t \in r2 : o2[t].id = o2[s].id ELSE NoSlot

PostState == [objs |-> [s \in DOMAIN obj' |-> [c |-> obj'[s].c, p |-> obj'[s].p, k |-> obj'[s].k, o |-> obj'[s].o,
                                         det |-> obj'[s].det]],
         held |-> held',
         reg |-> reg',
         look |-> [s \in DOMAIN obj' |-> Lookup(obj', reg', s)],
         sameid |-> {<<s, t>> \in (DOMAIN obj') \X (DOMAIN obj') : s # t /\ obj'[s].id = obj'[t].id},
         canon |-> IF ret'.op \in Creating /\ ~Collide /\ ~ret'.twin THEN <<ToString(obj'[ret'.res].id[1])>> ELSE <<>>]

EmitAct == PrintT(ToJson([m |-> "registry", steps |-> hist', post |-> PostState, ret |-> ret']))

Bound == Len(hist) <= MaxDepth
=============================================================================
