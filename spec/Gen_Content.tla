---------------------------- MODULE Gen_Content ----------------------------
(***************************************************************************)
(* C01 / C02 case generator.  For every heap: all pairs (newest, other)    *)
(* with the expected content equality CEq and full equality Eq; and for    *)
(* the tree rooted at the newest object every single-point variation       *)
(* (origin flipped at one slot, one property atom changed at one slot,     *)
(* one optional child removed, one tuple shortened / reversed) as a second *)
(* heap, with the expected CEq / Eq between the two roots.                 *)
(***************************************************************************)
EXTENDS HeapGen, Json

Root == Newest
Under == Reach(h, Root)

Pairs == {[a |-> Root, b |-> s, ceq |-> CEq(h, Root, h, s), eq |-> Eq(h, Root, h, s)] : s \in DOMAIN h}

OtherOrigin(o) == CHOOSE x \in Origins \cup {o + 1} : x # o
FlipOrg(s) == [h EXCEPT ![s].o = OtherOrigin(h[s].o)]

(* property variations: every property (comparable or not) of every slot under the root *)
PropVars == {<<s, f, v>> \in Under \X {"a", "b", "c", "note", "tag", "v", "w", "ninit", "x", "y"} \X {0, 1, 2} :
                /\ f \in Range(PropFields[h[s].c])
                /\ v \in PropAtoms(h[s].c, f) \cup {h[s].p[f] + 1}
                /\ v # h[s].p[f]
                /\ IsInit[h[s].c][f]}
SetProp(s, f, v) == [h EXCEPT ![s].p[f] = v]

(* structural variations *)
Rev(t) == [j \in 1..Len(t) |-> t[Len(t) + 1 - j]]
KidVars == {<<s, f>> \in Under \X {"child", "left", "right", "items", "head", "extra", "pair", "kid"} :
                /\ f \in Range(ChildFields[h[s].c])
                /\ Kind[h[s].c][f] \in {"opt", "tuple"}
                /\ IF Kind[h[s].c][f] = "opt" THEN h[s].k[f] # NoSlot ELSE Len(h[s].k[f]) > 0}
DropKid(s, f) == IF Kind[h[s].c][f] = "opt" THEN [h EXCEPT ![s].k[f] = NoSlot]
                 ELSE [h EXCEPT ![s].k[f] = Tail(h[s].k[f])]
RevKid(s, f) == IF Kind[h[s].c][f] = "opt" THEN h ELSE [h EXCEPT ![s].k[f] = Rev(h[s].k[f])]

Var(kind, s, f, v, h2) == [kind |-> kind, s |-> s, f |-> f, v |-> v, h2 |-> h2,
                           ceq |-> CEq(h, Root, h2, Root), eq |-> Eq(h, Root, h2, Root)]

Vars == {Var("org", s, "", 0, FlipOrg(s)) : s \in Under}
        \cup {Var("prop", x[1], x[2], x[3], SetProp(x[1], x[2], x[3])) : x \in PropVars}
        \cup {Var("drop", x[1], x[2], 0, DropKid(x[1], x[2])) : x \in KidVars}
        \cup {Var("rev", x[1], x[2], 0, RevKid(x[1], x[2])) : x \in KidVars}

Case == [m |-> "content", h |-> h, root |-> Root, pairs |-> Pairs, vars |-> Vars]

EmitInv == NObj > 0 => PrintT(ToJson(Case))

---------------------------------------------------------------------------
(* MC: CEq and Eq are equivalence relations on every heap; Eq refines CEq;  *)
(* CEq ignores origins and non-comparable properties.                       *)
S == DOMAIN h
CEqEquiv == /\ \A a \in S : CEq(h, a, h, a)
            /\ \A a, b \in S : CEq(h, a, h, b) => CEq(h, b, h, a)
            /\ \A a, b, c \in S : CEq(h, a, h, b) /\ CEq(h, b, h, c) => CEq(h, a, h, c)
EqEquiv ==  /\ \A a \in S : Eq(h, a, h, a)
            /\ \A a, b \in S : Eq(h, a, h, b) => Eq(h, b, h, a)
            /\ \A a, b, c \in S : Eq(h, a, h, b) /\ Eq(h, b, h, c) => Eq(h, a, h, c)
            /\ \A a, b \in S : Eq(h, a, h, b) => CEq(h, a, h, b)
OriginBlind == NObj > 0 => \A s \in Under : CEq(h, Root, FlipOrg(s), Root)
NonCompareBlind == NObj > 0 => \A x \in PropVars :
      ~Compare[h[x[1]].c][x[2]] => CEq(h, Root, SetProp(x[1], x[2], x[3]), Root)
CompareSensitive == NObj > 0 => \A x \in PropVars :
      Compare[h[x[1]].c][x[2]] => ~CEq(h, Root, SetProp(x[1], x[2], x[3]), Root)
=============================================================================
