---------------------------- MODULE Trace_Typing ----------------------------
(* code -> spec for C11 / C13: recorded verdicts for random annotation terms of depth <= 3 (and
   recorded conformance of values); accepted iff equal to Typing!Classify / Typing!Conforms. *)
EXTENDS Typing, Json, IOUtils, TLCExt
Lines == ndJsonDeserialize(IOEnv.TRACE_FILE)
VARIABLE l
Accept(c) == IF c.op = "classify" THEN WellFormedTerm(c.t) /\ c.obs = Classify(c.t)
             ELSE Unspecified(c.v, c.t) \/ c.obs = Conforms(c.v, c.t)
Init == l = 1 /\ TLCSet(1, {})
Next == /\ l <= Len(Lines)
        /\ IF Accept(Lines[l]) THEN TRUE
           ELSE TLCSet(1, TLCGet(1) \cup {l}) /\ PrintT(ToJson([rej |-> l, info |-> <<Lines[l].op>>]))
        /\ l' = l + 1
Done == PrintT(ToJson([rejected_total |-> Cardinality(TLCGet(1))])) /\ TLCGet(1) = {} /\ TLCGet("stats").diameter - 1 = Len(Lines)
=============================================================================
