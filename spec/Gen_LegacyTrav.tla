--------------------------- MODULE Gen_LegacyTrav ---------------------------
(***************************************************************************)
(* C20 case generator: attached legacy trees (no object twice) with        *)
(*   - legacy dfs / bfs for every prune subset x filter subset of the      *)
(*     *nodes* (root included) x skip_self: the start node is offered to   *)
(*     filter and prune like any other node unless skipped; below it       *)
(*     exactly the positions of C05 (module Heap);                         *)
(*   - gather;                                                             *)
(*   - legacy xpath match of every node against 1-step paths, samples of   *)
(*     2 / 3-step paths and paths derived from real positions, evaluated   *)
(*     with the C07 semantics (module TreeQ) along the parent chain;       *)
(*   - the path calculate_xpath must assign to every node.                 *)
(***************************************************************************)
EXTENDS HeapGen, TreeQ, Json, Randomization

CONSTANTS GatherClasses, XFields, XClasses, XIndices, NPath2, NPath3

Root == Newest
Ok == NObj > 0 /\ NoShare(h, Root)
NS == Nodes(h, Root)

NodeSeq(es) == [j \in 1..Len(es) |-> EN(es[j])]
EdgesTo(P) == {e \in AllEdges(h, Root) : EN(e) \in P}

(* legacy traversal: node sequence; P, F sets of nodes *)
LTrav(mode, P, F, skip) ==
    LET below == IF ~skip /\ Root \in P THEN <<>>
                 ELSE NodeSeq(IF mode = "pre" THEN Pre(h, Root, EdgesTo(P))
                              ELSE IF mode = "post" THEN Post(h, Root, EdgesTo(P)) ELSE Bfs(h, Root, EdgesTo(P)))
        all == IF skip THEN below ELSE IF mode = "post" THEN Append(below, Root) ELSE <<Root>> \o below
    IN SelectSeq(all, LAMBDA n : n \in F)

K == Cardinality(NS)
PruneSets == IF K <= 4 THEN SUBSET NS ELSE {S \in SUBSET NS : Cardinality(S) <= 1}
FilterSets(P) == IF K <= 3 THEN SUBSET NS ELSE {NS, P, NS \ P, {}}

TRun(P, F, skip) == [prune |-> P, flt |-> F, skip |-> skip,
                     pre |-> LTrav("pre", P, F, skip), post |-> LTrav("post", P, F, skip), bfs |-> LTrav("bfs", P, F, skip)]

LGather(cs, exact, P, skip) ==
    SelectSeq(LTrav("pre", P, NS, skip),
              LAMBDA n : IF exact THEN h[n].c \in cs ELSE \E d \in cs : IsSub(h[n].c, d))

TravCase == [m |-> "ltrav", h |-> h, root |-> Root,
             runs |-> UNION {{TRun(P, F, sk) : F \in FilterSets(P), sk \in BOOLEAN} : P \in PruneSets},
             gather |-> {[classes |-> cs, exact |-> ex, prune |-> P, skip |-> sk, res |-> LGather(cs, ex, P, sk)]
                           : cs \in GatherClasses, ex \in BOOLEAN, P \in {{}} \cup {{n} : n \in NS}, sk \in BOOLEAN}]

Steps == [any : BOOLEAN, f : XFields \cup {"none"}, i : XIndices \cup {0 - 1}, c : XClasses \cup {"none"}]
P1 == {<<s>> : s \in Steps}
S2 == {<<s, t>> : s \in RandomSubset(NPath2, Steps), t \in RandomSubset(NPath2, Steps)}
S3 == {<<s, t, u>> : s \in RandomSubset(NPath3, Steps), t \in RandomSubset(NPath3, Steps), u \in RandomSubset(NPath3, Steps)}
Variant(st, v, anyw) == [any |-> anyw, f |-> IF v \in {2, 4} THEN "none" ELSE st[1], i |-> IF v = 2 THEN 0 - 1 ELSE st[2],
                         c |-> IF v = 3 THEN "none" ELSE st[3]]
DerivedOf(n) ==
    LET full == PathOf(h, Root, n)
        L == Len(full)
        keeps == {KK \in SUBSET (1..L) : L \in KK}
        Ordered(KK) == LET RECURSIVE Ord(_, _)
                           Ord(j, acc) == IF j > L THEN acc ELSE Ord(j + 1, IF j \in KK THEN Append(acc, j) ELSE acc)
                       IN Ord(1, <<>>)
        Mk(KK, v, base) == LET ix == Ordered(KK) IN
                           [j \in 1..Len(ix) |-> Variant(full[ix[j]], v, IF j = 1 THEN (ix[1] # 1 \/ base # 0) ELSE (ix[j] # ix[j - 1] + 1 \/ base = 1))]
        Vs(KK) == {1, 2, 3} \cup (IF \E j \in KK : full[j][2] >= 0 THEN {4} ELSE {})      \* 4: index and class, no field
    IN UNION {{Mk(KK, v, base) : v \in Vs(KK), base \in {0, 1, 2}} : KK \in keeps}
Paths == P1 \cup S2 \cup S3 \cup UNION {DerivedOf(n) : n \in NS}

(* in-place edits: a node that sits in a sequence is removed (replace_with(None)); the paths every remaining node must
   carry after calculate_xpath() has been run before and again after the edit *)
InSeq(n) == n # Root /\ ParentInfo(h, Root, n)[3] >= 0
Without(n) == LET pi == ParentInfo(h, Root, n)
                  seq == h[pi[1]].k[pi[2]]
              IN [h EXCEPT ![pi[1]].k[pi[2]] = SubSeq(seq, 1, pi[3]) \o SubSeq(seq, pi[3] + 2, Len(seq))]
Edits == {[n |-> n, xpaths |-> [m \in Nodes(Without(n), Root) |-> PathOf(Without(n), Root, m)]] : n \in {x \in NS : InSeq(x)}}

XCase == [m |-> "lxpath", h |-> h, root |-> Root, edits |-> Edits,
          xpaths |-> [n \in NS |-> PathOf(h, Root, n)],
          paths |-> {[p |-> p, found |-> FindAll(h, Root, p)] : p \in Paths}]

EmitTrav == Ok => PrintT(ToJson(TravCase))
EmitXPath == Ok => PrintT(ToJson(XCase))
(* the edits alone (no path sets), for trees one object larger than the path cases afford *)
EmitEdits == Ok /\ Edits # {} => PrintT(ToJson([m |-> "lxpath", h |-> h, root |-> Root, edits |-> Edits,
                                                xpaths |-> [n \in NS |-> PathOf(h, Root, n)], paths |-> {}]))

(* MC: legacy traversal = C05 traversal shifted by the start node *)
ShiftLaw == Ok => \A P \in PruneSets :
     /\ LTrav("pre", P, NS, TRUE) = NodeSeq(Pre(h, Root, EdgesTo(P)))
     /\ Root \notin P => LTrav("pre", P, NS, FALSE) = <<Root>> \o LTrav("pre", P, NS, TRUE)
     /\ Root \in P => LTrav("pre", P, NS, FALSE) = <<Root>>
XAgree == Ok => \A p \in P1 : Agree(h, Root, p)
=============================================================================
