------------------------------ MODULE Registry ------------------------------
(***************************************************************************)
(* The v2 node registry as a state machine (properties C03, C14, C10,      *)
(* C04).  One action per public operation of pyoak.node.ASTNode, with the  *)
(* registry effects spelled the way the code performs them:                *)
(*                                                                         *)
(*   New        Cls(fields...)           compute id, register             *)
(*   DcReplace  dataclasses.replace(o,..) = New with o's fields overridden *)
(*   Replace    o.replace(..)             pop o, New, (restore on failure) *)
(*   ReplaceFails                          a replace() that raises         *)
(*   Dup        o.duplicate()             post-order fold of New           *)
(*   Detach     o.detach()                pop o and every descendant       *)
(*   DetachSelf o.detach_self()           pop o, result = popped?          *)
(*   Drop/Hold  the program forgets / starts holding a reference; a node   *)
(*              nothing refers to is garbage collected at once (nodes are  *)
(*              immutable and acyclic) and its weak registry entry goes.   *)
(*   Ser/Deser  module Serialize (extends this one)                        *)
(*                                                                         *)
(* Objects are slots; `obj` maps the live slots to their immutable record  *)
(* plus `id` and the history flag `det` ("has itself been detached or      *)
(* replaced away").  `reg` is the registry, kept as the set of registered  *)
(* slots: the dictionary id -> node is  {obj[s].id :> s : s \in reg} and   *)
(* dictionary assignment / pop are `Register` / `PopId` below.             *)
(*                                                                         *)
(* Ids are abstract: <<base, n>> where base is the digest input the code   *)
(* hashes (class, origin, comparable properties, children's content and    *)
(* origins) -- or one constant when Collide models ID_DIGEST_SIZE so small *)
(* that everything collides -- and n the collision suffix (0 = none).      *)
(***************************************************************************)
EXTENDS Choices

CONSTANTS Slots,     \* object identities (model values; SYMMETRY)
          Collide,   \* TRUE: all digests collide (ID_DIGEST_SIZE = 1 in the extreme)
          CondPop,   \* TRUE: pop only the receiver itself (the code after the fix)
                     \* FALSE: pop whatever is registered under the receiver's id (pinned code)
          Ops,       \* operations enabled in this instance (to focus a bounded run)
          MaxBlobs,  \* payloads kept
          ObserveKinds, \* read-only operations exercised by Observe (C10): traversals, Tree, xpath, ...
          ForceTaken \* TRUE: deserialization forces the serialized id even when another live node holds it
                     \* (the pinned code; TLC then finds the RegExact counterexample of DESIGN section 7)

VARIABLES obj, held, reg, ret, hist,
          blobs      \* serialized payloads the program still holds: sequence of [h, root] snapshots (by value)
vars == <<obj, held, reg, ret, hist, blobs>>
view == <<obj, held, reg, blobs>>

Live == DOMAIN obj
FreeSlots == Slots \ Live
Core(rec) == [c |-> rec.c, p |-> rec.p, k |-> rec.k, o |-> rec.o, id |-> rec.id]

---------------------------------------------------------------------------
(* ids *)

CmpProps(c, p) == [j \in 1..Len(PropFields[c]) |->
                     IF Compare[c][PropFields[c][j]] THEN p[PropFields[c][j]] ELSE 0]

RECURSIVE CKey(_, _)
CKey(h, s) ==       \* canonical value of the content of s: equal values <=> CEq
    LET c == h[s].c IN
    <<c, CmpProps(c, h[s].p),
      [j \in 1..Len(ChildFields[c]) |->
         LET f == ChildFields[c][j]
             v == h[s].k[f]
         IN IF IsSeqKind(Kind[c][f]) THEN [x \in 1..Len(v) |-> CKey(h, v[x])]
            ELSE IF v = NoSlot THEN <<>> ELSE <<CKey(h, v)>>]>>

(* what the id digest is computed from, for a record r = [c, p, k, o] whose children live in h *)
IdKeyOf(h, r) ==
    <<r.c, r.o, CmpProps(r.c, r.p),
      [j \in 1..Len(ChildFields[r.c]) |->
         LET f == ChildFields[r.c][j]
             v == r.k[f]
         IN IF IsSeqKind(Kind[r.c][f]) THEN [x \in 1..Len(v) |-> <<CKey(h, v[x]), h[v[x]].o>>]
            ELSE IF v = NoSlot THEN <<>> ELSE <<<<CKey(h, v), h[v].o>>>>]>>

BaseOf(K) == IF Collide THEN <<"b">> ELSE K

UsedIds(h, rg) == {h[s].id : s \in rg}

FreshId(h, rg, K) ==
    LET b == BaseOf(K)
        used == UsedIds(h, rg)
    IN IF <<b, 0>> \notin used THEN <<b, 0>>
       ELSE <<b, CHOOSE n \in 1..(Cardinality(Slots) + 1) :
                    /\ <<b, n>> \notin used
                    /\ \A m \in 1..(n - 1) : <<b, m>> \in used>>

---------------------------------------------------------------------------
(* registry primitives on a threaded state st = [obj, reg] *)

PopId(st, id) == [st EXCEPT !.reg = {t \in st.reg : st.obj[t].id # id}]       \* REGISTRY.pop(id, None)
PopSelf(st, s) == [st EXCEPT !.reg = st.reg \ {s}]                             \* pop only if entry is s
PopFor(st, s) == IF CondPop THEN PopSelf(st, s) ELSE PopId(st, st.obj[s].id)
Register(st, s) == [st EXCEPT !.reg = {t \in st.reg : st.obj[t].id # st.obj[s].id} \cup {s}]   \* REGISTRY[id] = s

AFree(st) == CHOOSE s \in Slots : s \notin DOMAIN st.obj

FreshIdB(h, rg, b) ==      \* the same with the digest (base id) given
    LET used == UsedIds(h, rg)
    IN IF <<b, 0>> \notin used THEN <<b, 0>>
       ELSE <<b, CHOOSE n \in 1..(Cardinality(DOMAIN h) + 2) :
                    /\ <<b, n>> \notin used
                    /\ \A m \in 1..(n - 1) : <<b, m>> \in used>>

(* the constructor: r = [c, p, k, o]; the new object goes to free slot s; CreateB: digest b given *)
CreateB(st, r, s, b) ==
    LET id == FreshIdB(st.obj, st.reg, b)
        rec == [c |-> r.c, p |-> r.p, k |-> r.k, o |-> r.o, id |-> id, det |-> FALSE]
    IN Register([st EXCEPT !.obj = (s :> rec) @@ st.obj], s)

Create(st, r, s) ==
    LET id == FreshId(st.obj, st.reg, IdKeyOf(st.obj, r))
        rec == [c |-> r.c, p |-> r.p, k |-> r.k, o |-> r.o, id |-> id, det |-> FALSE]
    IN Register([st EXCEPT !.obj = (s :> rec) @@ st.obj], s)

St == [obj |-> obj, reg |-> reg]

(* finish a step: the program holds `hd`; everything unreachable dies *)
FinishB(st, hd, r, ev, bl) ==
    LET alive == ReachAll(st.obj, hd) IN
    /\ obj' = [s \in alive |-> st.obj[s]]
    /\ held' = hd
    /\ reg' = st.reg \cap alive
    /\ ret' = r
    /\ hist' = Append(hist, ev)
    /\ blobs' = bl
Finish(st, hd, r, ev) == FinishB(st, hd, r, ev, blobs)

HasTwin(st, r) == \E t \in st.reg : st.obj[t].id[1] = BaseOf(IdKeyOf(st.obj, r))

---------------------------------------------------------------------------
(* actions *)

New(c) ==
    /\ FreeSlots # {}
    /\ \E r \in Ctor(obj, c) :
         LET s == AFree(St)
             st == Create(St, r, s)
         IN Finish(st, held \cup {s},
                   [op |-> "new", res |-> s, src |-> s, twin |-> HasTwin(St, r)],
                   [op |-> "new", res |-> s, r |-> r])

(* a construction that raises in the user's __post_init__, after ASTNode.__post_init__ registered the node:
   the half-built node is garbage, nothing may stay behind *)
NewFails ==
    /\ "Picky" \in GenClasses
    /\ Finish(St, held, [op |-> "new_fails", res |-> NoSlot, src |-> NoSlot], [op |-> "new_fails"])

(* the changes a replace can make: nothing, one init property, one child field *)
Changes(o) ==
    LET c == obj[o].c IN
    {<<"none", "", 0>>}
    \cup {<<"prop", f, v>> : f \in {g \in Range(PropFields[c]) : IsInit[c][g]}, v \in 0..2}
    \cup UNION {{<<"kid", f, v>> : v \in KidChoicesH(obj, c, f)} : f \in Range(ChildFields[c])}

ChgOk(o, chg) == chg[1] # "prop" \/ chg[3] \in PropAtoms(obj[o].c, chg[2])

Apply(rec, chg) ==
    LET r == [c |-> rec.c, p |-> rec.p, k |-> rec.k, o |-> rec.o] IN
    IF chg[1] = "prop" THEN [r EXCEPT !.p[chg[2]] = chg[3]]
    ELSE IF chg[1] = "kid" THEN [r EXCEPT !.k[chg[2]] = chg[3]]
    ELSE r

SameKeyChange(o, chg) ==    \* the change leaves class, origin, comparable content, children untouched
    \/ chg[1] = "none"
    \/ chg[1] = "prop" /\ (~Compare[obj[o].c][chg[2]] \/ chg[3] = obj[o].p[chg[2]])
    \/ chg[1] = "kid" /\ chg[3] = obj[o].k[chg[2]]

Replace(o) ==
    /\ o \in held
    /\ FreeSlots # {}
    /\ \E chg \in {x \in Changes(o) : ChgOk(o, x)} :
         LET st0 == PopFor(St, o)
             r == Apply(obj[o], chg)
             s == AFree(St)
             st1 == Create(st0, r, s)
             st2 == [st1 EXCEPT !.obj[o].det = TRUE]
         IN Finish(st2, held \cup {s},
                   [op |-> "replace", res |-> s, src |-> o, twin |-> HasTwin(st0, r),
                    samekey |-> SameKeyChange(o, chg), srcreg |-> o \in reg],
                   [op |-> "replace", src |-> o, chg |-> chg, res |-> s])

(* replace() raising: unknown field / non-init field / ill-typed value.  The popped entry is put
   back, so nothing changes -- also for the pinned code, which pops and restores the same entry. *)
ReplaceFails(o) ==
    /\ o \in held
    /\ \E why \in {"unknown_field", "non_init_field", "post_init"} :
         /\ why = "non_init_field" => \E f \in Range(PropFields[obj[o].c]) : ~IsInit[obj[o].c][f]
         \* the user's own __post_init__ raises after the new node was built and registered (class Picky)
         /\ why = "post_init" => obj[o].c = "Picky"
         /\ Finish(St, held, [op |-> "replace_fails", res |-> o, src |-> o],
                   [op |-> "replace_fails", src |-> o, why |-> why])

DcReplace(o) ==
    /\ o \in held
    /\ FreeSlots # {}
    /\ \E chg \in {x \in Changes(o) : ChgOk(o, x)} :
         LET r == Apply(obj[o], chg)
             s == AFree(St)
             st1 == Create(St, r, s)
         IN Finish(st1, held \cup {s},
                   [op |-> "dcreplace", res |-> s, src |-> o, twin |-> HasTwin(St, r), srcreg |-> o \in reg],
                   [op |-> "dcreplace", src |-> o, chg |-> chg, res |-> s])

(* duplicate(): children first, field by field in declaration order, then the node itself *)
RECURSIVE DupOne(_, _), DupSeq(_, _), DupFields(_, _, _)
DupSeq(st, ss) ==
    IF ss = <<>> THEN [st |-> st, res |-> <<>>, news |-> <<>>]
    ELSE LET a == DupOne(st, Head(ss))
             b == DupSeq(a.st, Tail(ss))
         IN [st |-> b.st, res |-> <<a.res>> \o b.res, news |-> a.news \o b.news]
DupFields(st, n, fs) ==
    IF fs = <<>> THEN [st |-> st, k |-> <<>>, news |-> <<>>]
    ELSE LET f == Head(fs)
             v == st.obj[n].k[f]
             a == IF IsSeqKind(Kind[st.obj[n].c][f]) THEN DupSeq(st, v)
                  ELSE IF v = NoSlot THEN [st |-> st, res |-> <<>>, news |-> <<>>]
                  ELSE DupSeq(st, <<v>>)
             val == IF IsSeqKind(Kind[st.obj[n].c][f]) THEN a.res
                    ELSE IF v = NoSlot THEN NoSlot ELSE a.res[1]
             b == DupFields(a.st, n, Tail(fs))
         IN [st |-> b.st, k |-> (f :> val) @@ b.k, news |-> a.news \o b.news]
DupOne(st, n) ==
    LET kf == DupFields(st, n, ChildFields[st.obj[n].c])
        s == AFree(kf.st)
        rec == st.obj[n]
        st2 == Create(kf.st, [c |-> rec.c, p |-> rec.p, k |-> kf.k, o |-> rec.o], s)
    IN [st |-> st2, res |-> s, news |-> Append(kf.news, s)]

RECURSIVE TreeSize(_, _)
TreeSize(h, o) == 1 + LET ks == Kids(h, o) IN
                      IF ks = <<>> THEN 0
                      ELSE LET Sum[j \in 0..Len(ks)] == IF j = 0 THEN 0 ELSE Sum[j - 1] + TreeSize(h, ks[j].n)
                           IN Sum[Len(ks)]

Dup(o) ==
    /\ o \in held
    /\ TreeSize(obj, o) <= Cardinality(FreeSlots)
    /\ LET d == DupOne(St, o) IN
       Finish(d.st, held \cup {d.res},
              [op |-> "dup", res |-> d.res, src |-> o],
              [op |-> "dup", src |-> o, res |-> d.res, news |-> d.news])

RECURSIVE PopAll(_, _)
PopAll(st, ss) == IF ss = {} THEN st ELSE LET s == CHOOSE x \in ss : TRUE IN PopAll(PopFor(st, s), ss \ {s})

Detach(o) ==
    /\ o \in held
    /\ LET T == Reach(obj, o)
           st1 == PopAll(St, T)
           st2 == [st1 EXCEPT !.obj = [s \in Live |-> IF s \in T THEN [obj[s] EXCEPT !.det = TRUE] ELSE obj[s]]]
       IN Finish(st2, held, [op |-> "detach", res |-> o, src |-> o],
                 [op |-> "detach", src |-> o])

DetachSelf(o) ==
    /\ o \in held
    /\ LET st1 == PopFor(St, o)
           st2 == [st1 EXCEPT !.obj[o].det = TRUE]
       IN Finish(st2, held, [op |-> "detach_self", res |-> o, src |-> o, popped |-> st1.reg # reg],
                 [op |-> "detach_self", src |-> o, popped |-> st1.reg # reg])

Drop(o) ==
    /\ o \in held
    /\ Finish(St, held \ {o}, [op |-> "drop", res |-> o, src |-> o], [op |-> "drop", src |-> o])

(* C10: every other public operation -- traversals, Tree queries, xpath search / match, pattern
   matching, visiting, transforming (result discarded), comparison, hashing, pretty printing,
   accessors, serialization, assignment attempts (which must raise) -- changes nothing at all.  One
   action per kind so that each is exercised from every reachable registry state. *)
Observe(o) ==
    /\ o \in held
    /\ \E kd \in ObserveKinds :
         Finish(St, held, [op |-> "observe", res |-> o, src |-> o], [op |-> "observe", src |-> o, kind |-> kd])

(* the program forgets every node at once (e.g. the payload travels to a fresh process) *)
DropAll ==
    /\ held # {}
    /\ Finish(St, {}, [op |-> "dropall", res |-> NoSlot, src |-> NoSlot], [op |-> "dropall"])

(* start holding a descendant (so that a parent can die while its child lives) *)
Hold(o) ==
    /\ o \in Live \ held
    /\ Finish(St, held \cup {o}, [op |-> "hold", res |-> o, src |-> o], [op |-> "hold", src |-> o])

---------------------------------------------------------------------------
(* serialization (C04): a payload is the tree by value, ids included; the four formats are one
   abstract payload.  Deserialization is a fold over the payload: a position whose id is in the
   registry comes back as that registered object (its payload children are not even looked at),
   otherwise the children are deserialized first, the node is constructed (computing its own id and
   registering) and the serialized id is then forced onto it. *)
Snapshot(o) == [h |-> [n \in Reach(obj, o) |-> Core(obj[n])], root |-> o]

Ser(o) ==
    /\ o \in held
    /\ Len(blobs) < MaxBlobs
    /\ FinishB(St, held, [op |-> "ser", res |-> o, src |-> o], [op |-> "ser", src |-> o, blob |-> Len(blobs) + 1],
               Append(blobs, Snapshot(o)))

RECURSIVE MatchesSub(_, _, _, _)
MatchesSub(bh, n, h, t) ==     \* object t of heap h is, by value and ids, the payload subtree at n
    /\ bh[n].c = h[t].c /\ bh[n].p = h[t].p /\ bh[n].o = h[t].o /\ bh[n].id = h[t].id
    /\ LET kb == Kids(bh, n)
           kh == Kids(h, t)
       IN Len(kb) = Len(kh) /\ \A j \in 1..Len(kb) :
             kb[j].f = kh[j].f /\ kb[j].i = kh[j].i /\ MatchesSub(bh, kb[j].n, h, kh[j].n)

RECURSIVE DesOne(_, _, _), DesSeq(_, _, _), DesFields(_, _, _, _)
DesSeq(st, bh, ss) ==
    IF ss = <<>> THEN [st |-> st, res |-> <<>>, news |-> <<>>, clean |-> TRUE]
    ELSE LET a == DesOne(st, bh, Head(ss))
             b == DesSeq(a.st, bh, Tail(ss))
         IN [st |-> b.st, res |-> <<a.res>> \o b.res, news |-> a.news \o b.news, clean |-> a.clean /\ b.clean]
DesFields(st, bh, n, fs) ==
    IF fs = <<>> THEN [st |-> st, k |-> <<>>, news |-> <<>>, clean |-> TRUE]
    ELSE LET f == Head(fs)
             v == bh[n].k[f]
             isq == IsSeqKind(Kind[bh[n].c][f])
             a == IF isq THEN DesSeq(st, bh, v)
                  ELSE IF v = NoSlot THEN [st |-> st, res |-> <<>>, news |-> <<>>, clean |-> TRUE]
                  ELSE DesSeq(st, bh, <<v>>)
             val == IF isq THEN a.res ELSE IF v = NoSlot THEN NoSlot ELSE a.res[1]
             b == DesFields(a.st, bh, n, Tail(fs))
         IN [st |-> b.st, k |-> (f :> val) @@ b.k, news |-> a.news \o b.news, clean |-> a.clean /\ b.clean]
DesOne(st, bh, n) ==
    LET id == bh[n].id
        hit == {t \in st.reg : st.obj[t].id = id}
    IN IF hit # {}
       THEN LET t == CHOOSE x \in hit : TRUE IN
            [st |-> st, res |-> t, news |-> <<>>, clean |-> MatchesSub(bh, n, st.obj, t)]
       ELSE LET kf == DesFields(st, bh, n, ChildFields[bh[n].c])
                s == AFree(kf.st)
                st1 == Create(kf.st, [c |-> bh[n].c, p |-> bh[n].p, k |-> kf.k, o |-> bh[n].o], s)
                taken == id \in UsedIds(st1.obj, st1.reg \ {s})   \* another live node holds the serialized id
                st2 == IF st1.obj[s].id = id \/ (taken /\ ~ForceTaken) THEN st1
                       ELSE Register([PopId(st1, st1.obj[s].id) EXCEPT !.obj[s].id = id], s)
            IN [st |-> st2, res |-> s, news |-> Append(kf.news, s),
                clean |-> kf.clean /\ (st1.obj[s].id = id \/ ~taken)]

Deser(b) ==
    /\ b \in 1..Len(blobs)
    /\ Cardinality(DOMAIN blobs[b].h) <= Cardinality(FreeSlots)
    /\ LET d == DesOne(St, blobs[b].h, blobs[b].root) IN
       Finish(d.st, held \cup {d.res},
              [op |-> "deser", res |-> d.res, src |-> d.res, blob |-> b, clean |-> d.clean],
              [op |-> "deser", blob |-> b, res |-> d.res, news |-> d.news])

(* the program discards a payload *)
Forget(b) ==
    /\ b \in 1..Len(blobs)
    /\ FinishB(St, held, [op |-> "forget", res |-> NoSlot, src |-> NoSlot], [op |-> "forget", blob |-> b],
               [j \in 1..(Len(blobs) - 1) |-> IF j < b THEN blobs[j] ELSE blobs[j + 1]])

Init == /\ obj = <<>>
        /\ held = {}
        /\ reg = {}
        /\ ret = [op |-> "init", res |-> NoSlot, src |-> NoSlot]
        /\ hist = <<>>
        /\ blobs = <<>>

AllOps == {"new", "replace", "replace_fails", "dcreplace", "dup", "detach", "detach_self", "drop", "hold",
           "ser", "deser", "forget", "dropall", "observe", "new_fails"}

Next == \/ "new" \in Ops /\ \E c \in GenClasses : New(c)
        \/ "new_fails" \in Ops /\ NewFails
        \/ \E o \in Slots : \/ "replace" \in Ops /\ Replace(o)
                            \/ "replace_fails" \in Ops /\ ReplaceFails(o)
                            \/ "dcreplace" \in Ops /\ DcReplace(o)
                            \/ "dup" \in Ops /\ Dup(o)
                            \/ "detach" \in Ops /\ Detach(o)
                            \/ "detach_self" \in Ops /\ DetachSelf(o)
                            \/ "drop" \in Ops /\ Drop(o)
                            \/ "hold" \in Ops /\ Hold(o)
                            \/ "ser" \in Ops /\ Ser(o)
                            \/ "observe" \in Ops /\ Observe(o)
        \/ "dropall" \in Ops /\ DropAll
        \/ \E b \in 1..MaxBlobs : \/ "deser" \in Ops /\ Deser(b)
                                  \/ "forget" \in Ops /\ Forget(b)

Spec == Init /\ [][Next]_vars

---------------------------------------------------------------------------
(* C03 *)

TypeOK == /\ held \subseteq Live
          /\ reg \subseteq Live
          /\ Live = ReachAll(obj, held)           \* NoPin: nothing survives that the program cannot reach

(* every live, not-detached node is found under its id, detached ones are not, one object per id *)
RegExact == /\ \A s \in Live : ~obj[s].det => s \in reg
            /\ \A s \in reg : ~obj[s].det
            /\ \A s, t \in reg : obj[s].id = obj[t].id => s = t

IdsUnique == \A s, t \in Live : (~obj[s].det /\ ~obj[t].det /\ s # t) => obj[s].id # obj[t].id

Creating == {"new", "replace", "dcreplace"}

(* created while no registered node has the same class, origin, comparable content and direct
   children: the id is the canonical one (suffix 0), every time *)
IdDeterministic == (ret.op \in Creating /\ ~Collide /\ ~ret.twin)
                      => obj[ret.res].id = <<IdKeyOf(obj, obj[ret.res]), 0>>

(* a replace() that raises leaves the registry (and everything else) exactly as it was *)
FailFrame == [][ret'.op \in {"replace_fails", "new_fails", "observe"} => UNCHANGED <<obj, held, reg>>]_vars

---------------------------------------------------------------------------
(* C10: no operation changes an existing node; only registry membership (and the spec's own
   history flag det) may change, and only in detach / detach_self / replace *)
Immutable == [][\A s \in Live \cap DOMAIN obj' : Core(obj'[s]) = Core(obj[s])]_vars
MembershipFrame ==
    [][\A s \in Live \cap DOMAIN obj' :
          (s \in reg) # (s \in reg') =>
              \/ ret'.op \in {"detach", "detach_self", "replace"} /\ s \in reg /\ s \in Reach(obj, ret'.src)
              \/ FALSE]_vars

---------------------------------------------------------------------------
(* C14 *)

RECURSIVE SameAll(_, _, _)
SameAll(h, a, b) ==      \* same class, all property atoms (non-comparable too), origin, children
    /\ h[a].c = h[b].c /\ h[a].p = h[b].p /\ h[a].o = h[b].o
    /\ LET ka == Kids(h, a)
           kb == Kids(h, b)
       IN Len(ka) = Len(kb) /\ \A j \in 1..Len(ka) :
             ka[j].f = kb[j].f /\ ka[j].i = kb[j].i /\ SameAll(h, ka[j].n, kb[j].n)

DupFaithful ==
    ret.op = "dup" =>
      LET a == ret.src
          b == ret.res
      IN /\ Eq(obj, a, obj, b) /\ SameAll(obj, a, b)
         /\ Reach(obj, a) \cap Reach(obj, b) = {}
         /\ Reach(obj, b) \subseteq reg
         /\ \A x \in Reach(obj, b), y \in Reach(obj, a) \cap reg : obj[x].id # obj[y].id

ReplaceFaithful ==
    ret.op = "replace" =>
      LET a == ret.src
          b == ret.res
      IN /\ a # b /\ obj[a].c = obj[b].c
         /\ a \notin reg /\ b \in reg
         /\ (~Collide /\ ~ret.twin) => obj[b].id = <<IdKeyOf(obj, obj[b]), 0>>
         /\ (ret.samekey /\ ret.srcreg /\ obj[a].id[2] = 0 /\ ~ret.twin) => obj[b].id = obj[a].id

DcReplaceFaithful ==
    ret.op = "dcreplace" =>
      LET a == ret.src
          b == ret.res
      IN /\ a # b /\ obj[a].c = obj[b].c /\ b \in reg
         /\ ret.srcreg => (a \in reg /\ obj[a].id # obj[b].id)

---------------------------------------------------------------------------
(* C04: reading a payload back yields, at every position, the registered object with that id or a
   new registered node with the same class, id, properties and origin -- provided every id found in
   the registry during the fold belonged to a node that is the payload's (no foreign take-over). *)
RoundTrip ==
    ret.op = "deser" =>
      LET bl == blobs[ret.blob] IN
      /\ ret.clean => MatchesSub(bl.h, bl.root, obj, ret.res)
      /\ ret.clean => Reach(obj, ret.res) \subseteq reg \cup {s \in Live : obj[s].det}
      /\ ret.res \in held

(* CKey is a faithful canonical form of CEq (ids are computed from it) *)
CKeySound == \A a, b \in Live : (CKey(obj, a) = CKey(obj, b)) <=> CEq(obj, a, obj, b)

=============================================================================
