------------------------------- MODULE Origin -------------------------------
(***************************************************************************)
(* C15: the origin algebra.  Code points are ordered by index; a range is  *)
(* [s, e] with s <= e.  Origins are terms:                                 *)
(*    [k |-> "no"]                                                         *)
(*    [k |-> "code", src, s, e]     [k |-> "gen", src]  (range 0-0)        *)
(*    [k |-> "xml", src, path]      [k |-> "multi", ms] (ms: seq of terms) *)
(***************************************************************************)
EXTENDS Integers, Sequences, FiniteSets, TLC

Min(a, b) == IF a <= b THEN a ELSE b
Max(a, b) == IF a >= b THEN a ELSE b

R(s, e) == [s |-> s, e |-> e]
WellFormedPoint(idx, line, col) == idx >= 0 /\ line >= 1 /\ col >= 0
WellFormedRange(r) == r.s <= r.e

Contains(a, b) == a.s <= b.s /\ b.e <= a.e        \* b in a
Overlaps(a, b) == a.e >= b.s /\ a.s <= b.e        \* touching counts
Lt(a, b) == a.e < b.s
Le(a, b) == a.e <= b.s
Hull(a, b) == R(Min(a.s, b.s), Max(a.e, b.e))

No == [k |-> "no"]
Code(src, s, e) == [k |-> "code", src |-> src, s |-> s, e |-> e]
Gen(src) == [k |-> "gen", src |-> src]
Xml(src, path) == [k |-> "xml", src |-> src, path |-> path]
Multi(ms) == [k |-> "multi", ms |-> ms]

IsCode(o) == o.k \in {"code", "gen"}
RangeOf(o) == IF o.k = "gen" THEN R(0, 0) ELSE R(o.s, o.e)

RECURSIVE Flat(_)
Flat(os) ==     \* non-empty members in order: NoOrigin dropped, multi-origins expanded
    IF os = <<>> THEN <<>>
    ELSE LET o == Head(os) IN
         (IF o.k = "no" THEN <<>> ELSE IF o.k = "multi" THEN o.ms ELSE <<o>>) \o Flat(Tail(os))

Merge(os) ==    \* merge_origins(*os), Len(os) >= 1
    IF Len(os) = 1 THEN os[1]
    ELSE LET f == Flat(os) IN
         IF f = <<>> THEN No ELSE IF Len(f) = 1 THEN f[1] ELSE Multi(f)

Add(a, b) ==    \* a + b
    IF IsCode(a) /\ IsCode(b) /\ a.src = b.src /\ Overlaps(RangeOf(a), RangeOf(b))
    THEN LET hl == Hull(RangeOf(a), RangeOf(b)) IN Code(a.src, hl.s, hl.e)
    ELSE Merge(<<a, b>>)

RECURSIVE ConcatFrom(_, _)
ConcatFrom(acc, os) == IF os = <<>> THEN acc ELSE ConcatFrom(Add(acc, Head(os)), Tail(os))
Concat(os) == ConcatFrom(os[1], Tail(os))      \* concat_origins(os[1], *rest)

(* source of a (flat) origin: a single source id, or the tuple of member sources in operand order *)
SourceOf(o) ==
    IF o.k = "no" THEN <<0>>            \* NoSource
    ELSE IF o.k = "multi"
         THEN LET srcs == [j \in 1..Len(o.ms) |-> o.ms[j].src] IN
              IF \A j \in 1..Len(srcs) : srcs[j] = srcs[1] THEN <<srcs[1]>> ELSE srcs
    ELSE <<o.src>>

(* get_raw of a code origin over a text (sequence of characters): the slice [s, e) *)
Slice(text, s, e) == SubSeq(text, s + 1, Min(e, Len(text)))

(* flatness: what merge / concat / + return never nests and never lists NoOrigin *)
IsFlat(o) == o.k # "multi" \/ (Len(o.ms) >= 2 /\ \A j \in 1..Len(o.ms) : o.ms[j].k \notin {"no", "multi"})
=============================================================================
