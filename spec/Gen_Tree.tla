------------------------------ MODULE Gen_Tree ------------------------------
(***************************************************************************)
(* C06 / C07 case generator over HeapGen: for every heap whose newest      *)
(* object roots a tree without repeated objects, all upward queries for    *)
(* every node / pair (C06), and xpaths of 1-3 steps over an alphabet taken *)
(* from the tree (all 1-step paths; all 2-step paths on small trees, a     *)
(* random subset otherwise; a random subset of 3-step paths) with the      *)
(* expected result set (C07).                                              *)
(***************************************************************************)
EXTENDS HeapGen, TreeQ, Json, Randomization

CONSTANTS AncClasses,     \* class sets for get_first_ancestor_of_type
          XFields, XClasses, XIndices,   \* xpath alphabet
          NPath2, NPath3   \* sample sizes

Root == Newest
Ok == NObj > 0 /\ NoShare(h, Root)
NS == Nodes(h, Root)

NodeCase(n) == [n |-> n, pinfo |-> ParentInfo(h, Root, n), anc |-> Ancestors(h, Root, n),
                depth |-> Depth(h, Root, n), path |-> PathOf(h, Root, n),
                isanc |-> {a \in NS : IsAncestor(h, Root, n, a)},
                rel |-> [a \in NS |-> RelDepth(h, Root, n, a)],
                fa |-> {[classes |-> cs, exact |-> ex, res |-> FirstAncestorOfType(h, Root, n, cs, ex)] :
                           cs \in AncClasses, ex \in BOOLEAN}]

TreeCase == [m |-> "tree", h |-> h, root |-> Root, nodes |-> {NodeCase(n) : n \in NS},
             outside |-> DOMAIN h \ NS]

Steps == [any : BOOLEAN, f : XFields \cup {"none"}, i : XIndices \cup {0 - 1}, c : XClasses \cup {"none"}]
P1 == {<<s>> : s \in Steps}
P2 == {<<s, t>> : s \in Steps, t \in Steps}
(* samples are products of random step subsets (never the full product set, which is huge) *)
S2 == {<<s, t>> : s \in RandomSubset(NPath2, Steps), t \in RandomSubset(NPath2, Steps)}
S3 == {<<s, t, u>> : s \in RandomSubset(NPath3, Steps), t \in RandomSubset(NPath3, Steps),
                     u \in RandomSubset(NPath3, Steps)}
(* paths derived from the real position of each node: every subsequence of its root path that keeps
   the last level; a step after a gap is an "anywhere" step, the others are all direct or all anywhere;
   each step spelled in full, by class only, by field and index only, or by index and class without the field
   (the latter only for paths through a sequence, otherwise it is the class-only spelling) *)
Variant(st, v, anyw) == [any |-> anyw,
                         f |-> IF v \in {2, 4} THEN "none" ELSE st[1],
                         i |-> IF v = 2 THEN 0 - 1 ELSE st[2],
                         c |-> IF v = 3 THEN "none" ELSE st[3]]
DerivedOf(n) ==
    LET full == PathOf(h, Root, n)
        L == Len(full)
        keeps == {K \in SUBSET (1..L) : L \in K}
        Ordered(K) == LET RECURSIVE Ord(_, _)
                          Ord(j, acc) == IF j > L THEN acc ELSE Ord(j + 1, IF j \in K THEN Append(acc, j) ELSE acc)
                      IN Ord(1, <<>>)
        Mk(K, v, base) == LET ix == Ordered(K) IN
                          [j \in 1..Len(ix) |->
                             Variant(full[ix[j]], v,
                                     IF j = 1 THEN (ix[1] # 1 \/ base # 0) ELSE (ix[j] # ix[j - 1] + 1 \/ base = 1))]
        Vs(K) == {1, 2, 3} \cup (IF \E j \in K : full[j][2] >= 0 THEN {4} ELSE {})
    IN UNION {{Mk(K, v, base) : v \in Vs(K), base \in {0, 1, 2}} : K \in keeps}
Derived == UNION {DerivedOf(n) : n \in NS}

Paths == P1 \cup (IF NObj <= 2 THEN P2 ELSE S2) \cup S3 \cup Derived

XCase == [m |-> "xpath", h |-> h, root |-> Root,
          paths |-> {[p |-> p, found |-> FindAll(h, Root, p)] : p \in Paths}]

EmitTree == Ok => PrintT(ToJson(TreeCase))
EmitXPath == Ok => PrintT(ToJson(XCase))

(* MC: the two xpath formulations agree on every tree and path tried; upward queries are consistent *)
XAgree == Ok => \A p \in P1 \cup (IF NObj <= 2 THEN P2 ELSE S2) \cup S3 \cup Derived : Agree(h, Root, p)
(* a derived path finds at least the node it was derived from *)
DerivedFinds == Ok => \A n \in NS : \A p \in DerivedOf(n) : n \in FindAll(h, Root, p)
TreeConsistent ==
    Ok => \A n \in NS :
            /\ Depth(h, Root, n) = Len(PathOf(h, Root, n)) - 1
            /\ (n = Root) = (Ancestors(h, Root, n) = <<>>)
            /\ n # Root => /\ Ancestors(h, Root, n)[Len(Ancestors(h, Root, n))] = Root
                           /\ LET pi == ParentInfo(h, Root, n)
                                  v == h[pi[1]].k[pi[2]]
                              IN IF pi[3] < 0 THEN v = n ELSE v[pi[3] + 1] = n
            /\ \A m \in NS : PathOf(h, Root, n) = PathOf(h, Root, m) => n = m
=============================================================================
