------------------------------ MODULE LegacyMC ------------------------------
(***************************************************************************)
(* Model checking the legacy machine (Legacy.tla) itself: every history of *)
(* up to MaxOps public operations over the nodes the operations returned.  *)
(* TLC checks C18 and C19 as properties of the *design* -- with the two    *)
(* recorded deviations stated as explicit guards, so that the run shows    *)
(* that they are the only ways the documented algorithm breaks C18 / C19   *)
(* within the bounds -- and exports one witness program per transition,    *)
(* which the harness executes against the real classes and validates line  *)
(* by line with Trace_LegacyMachine.tla (spec -> code -> spec).            *)
(***************************************************************************)
EXTENDS Legacy, Json

CONSTANTS MaxOps, MaxHandles, GenClasses, MaxKids, Ops, Modes, DupModes, Atoms, TRules,
          Prelude      \* a program run before the exploration starts (<<>>: start from nothing); counts towards MaxOps

VARIABLES S,        \* the machine state [obj, reg]
          nh,       \* handles handed out so far (a rejected creating operation uses one up)
          hist,     \* the program that led here
          last,     \* what the last operation did: [err, partial, same, pre (the state before was clean and never had nested id twins)]
          clean,    \* every operation so far succeeded and no node sits at two positions
          twin      \* some state so far had a node sharing its id with a node below it
vars == <<S, nh, hist, last, clean, twin>>

Op(op, c, a, b, kids, atom, mode) == [op |-> op, c |-> c, a |-> a, b |-> b, kids |-> kids, atom |-> atom, mode |-> mode]
Creating == {"create", "replace_prop", "replace_kids", "duplicate", "tvisit", "texec"}
LeafLike == {"LLeaf", "LSub"}

Hs == {i \in 1..nh : H(i) \in DOMAIN S.obj}
Cls(i) == S.obj[H(i)].c
KidLists(c) ==
    IF c \in LeafLike THEN {<<>>}
    ELSE IF c = "LUnary" THEN {<<x>> : x \in Hs}
    ELSE IF c = "LOpt" THEN {<<>>} \cup {<<x>> : x \in {y \in Hs : Cls(y) \in LeafLike}}
    ELSE UNION {[1..n -> Hs] : n \in 0..MaxKids}

Below(n) == Reach(S.obj, n)
(* the node and its parents along the stored links (a link can point to a node that does not hold the child) *)
RECURSIVE UpFrom(_, _)
UpFrom(n, fuel) == IF n = None \/ fuel = 0 THEN {} ELSE {n} \cup UpFrom(Parent(S, n), fuel - 1)
Up(n) == UpFrom(n, Cardinality(Names(S)) + 1)
Positions(T) == UNION {{<<KidsOf(T, n)[j].n, n, j>> : j \in 1..Len(KidsOf(T, n))} : n \in {m \in Names(T) : ~Detached(T, m)}}
NoDouble(T) == \A x, y \in Positions(T) : x[1] = y[1] => x = y
TwinNested(T) == \E n \in Names(T) : \E m \in Reach(T.obj, n) \ {n} : T.obj[m].id = T.obj[n].id

(* a visitor whose rule returns None for a leaf in a required single field is a misuse the harness does not run *)
DropAdmissible(n, at) == ~\E u \in Below(n) : /\ S.obj[u].c = "LUnary"
                                              /\ S.obj[S.obj[u].k["child"]].c \in LeafLike
                                              /\ S.obj[S.obj[u].k["child"]].p["a"] = at

FreshLeafKey(T) == IdKeyStr(T, "LLeaf", 0, DefaultProps("LLeaf", 2), <<>>)

Do(op) ==
    LET nm == H(nh + 1)
        d == IF op.op = "create" THEN CreateKey(S, op)
             ELSE IF op.op \in {"tvisit", "texec"} THEN FreshLeafKey(S) ELSE ""       \* what the `fresh` rule builds
        r == Apply(S, op, nm, d)
    IN /\ Len(hist) < MaxOps
       /\ op.op \in Ops
       /\ nh' = IF op.op \in Creating THEN nh + 1 ELSE nh
       /\ nh' <= MaxHandles
       /\ S' = r.S
       /\ hist' = Append(hist, op)
       /\ last' = [err |-> r.err, partial |-> r.partial, same |-> r.S = S, pre |-> clean /\ ~twin, op |-> op.op,
                   att |-> op.a # 0 /\ ~Detached(S, H(op.a))]
       /\ clean' = (clean /\ r.err = "" /\ NoDouble(r.S))
       /\ twin' = (twin \/ TwinNested(r.S))

Next ==
    \/ \E c \in GenClasses, m \in Modes :
         \/ c \in LeafLike /\ \E at \in Atoms : Do(Op("create", c, 0, 0, <<>>, at, m))
         \/ c \notin LeafLike /\ \E k \in KidLists(c) : Do(Op("create", c, 0, 0, k, 0, m))
    \/ \E a \in Hs :
         \/ Do(Op("attach", "", a, 0, <<>>, 0, ""))
         \/ Do(Op("detach", "", a, 0, <<>>, 0, ""))
         \/ Do(Op("detach_self", "", a, 0, <<>>, 0, ""))
         \/ Cls(a) \in LeafLike /\ \E at \in Atoms : Do(Op("replace_prop", "", a, 0, <<>>, at, ""))
         \/ Cls(a) \notin LeafLike /\ \E k \in KidLists(Cls(a)) :
               /\ \A j \in 1..Len(k) : Below(H(k[j])) \cap Up(H(a)) = {}    \* the harness does not build cycles
               /\ Do(Op("replace_kids", "", a, 0, k, 0, ""))
         \/ Do(Op("replace_bad", "", a, 0, <<>>, 0, ""))
         \/ \E b \in Hs \ {a} : /\ Below(H(b)) \cap Up(H(a)) = {} /\ H(b) \notin Below(H(a))
                                /\ Do(Op("replace_with", "", a, b, <<>>, 0, ""))
         \/ Do(Op("replace_with_none", "", a, 0, <<>>, 0, ""))
         \/ \E dm \in DupModes : Do(Op("duplicate", "", a, 0, <<>>, 0, dm))
         \/ \E r \in TRules \ {"use"}, at \in Atoms : /\ (r = "drop" => DropAdmissible(H(a), at))
                                            /\ Do(Op("tvisit", "", a, 0, <<>>, at, r))
         \/ \E r \in TRules \ {"boom", "use"}, at \in Atoms : Do(Op("texec", "", a, 0, <<>>, at, r))
         \* the rule hands back an existing node (handle b) for every selected leaf; as for replace_with, no cycles
         \/ "use" \in TRules /\ \E at \in Atoms, b \in Hs \ {a} :
               /\ Below(H(b)) \cap (Up(H(a)) \cup Below(H(a))) = {}
               /\ Do(Op("texec", "", a, b, <<>>, at, "use"))

RECURSIVE RunFrom(_, _, _)
RunFrom(T, n, ops) ==
    IF ops = <<>> THEN [S |-> T, nh |-> n]
    ELSE LET op == Head(ops)
             r == Apply(T, op, H(n + 1), IF op.op = "create" THEN IdKeyStr(T, CreateArgs(T, op).c, CreateArgs(T, op).o, CreateArgs(T, op).p, CreateArgs(T, op).k)
                                         ELSE IF op.op \in {"tvisit", "texec"} THEN FreshLeafKey(T) ELSE "")
         IN RunFrom(r.S, IF op.op \in Creating THEN n + 1 ELSE n, Tail(ops))

Init == LET st == RunFrom([obj |-> <<>>, reg |-> <<>>], 0, Prelude) IN
        /\ S = st.S
        /\ nh = st.nh /\ hist = Prelude /\ last = [err |-> "", partial |-> FALSE, same |-> TRUE, pre |-> TRUE, op |-> "", att |-> FALSE]
        /\ clean = TRUE /\ twin = FALSE

(* states are compared without the program that reached them: one witness per distinct state *)
View == <<S, nh, last, clean, twin>>

---------------------------------------------------------------------------
(* C18 on the design: after successful operations that never place a node twice -- and, the recorded deviation
   id-twin-nested aside, i.e. as long as no node ever shared its id with a node below it -- the attached forest is
   consistent and every cached content id is current *)
Att == {n \in Names(S) : ~Detached(S, n)}
ChildrenAttached == \A n \in Att : \A j \in 1..Len(KidsOf(S, n)) :
      LET kd == KidsOf(S, n)[j] IN
      ~Detached(S, kd.n) /\ Parent(S, kd.n) = n /\ S.obj[kd.n].pf = kd.f /\ S.obj[kd.n].pi = kd.i
ParentBackLink == \A n \in Att : Parent(S, n) # None =>
      /\ Parent(S, n) \in Att
      /\ \E j \in 1..Len(KidsOf(S, Parent(S, n))) :
            LET kd == KidsOf(S, Parent(S, n))[j] IN kd.n = n /\ kd.f = S.obj[n].pf /\ kd.i = S.obj[n].pi
CidFresh == \A n \in Att : S.obj[n].cid = FreshCid(S, n, Fuel(S))
Judged == clean /\ ~twin
C18ChildrenAttached == Judged => ChildrenAttached
C18ParentBackLink == Judged => ParentBackLink
C18CidFresh == Judged => CidFresh

(* the guards are needed: without them TLC finds the recorded deviations (used by the self-test of the check) *)
UnguardedC18 == clean => (ChildrenAttached /\ ParentBackLink)
UnguardedC19 == last.pre /\ last.err # "" => last.same

(* C19 on the design: a rejected operation leaves the state as it was, unless the rejection came out of the attach
   phase after earlier children had been linked / registered (the recorded deviation partial-attach-effects).
   Histories with nested id twins are left out as in C18: there the state before the call is already inconsistent
   (e.g. a child whose stored index is not its position), and a rollback that re-links the children "changes" it. *)
C19Frame == last.pre /\ last.err # "" => (last.same \/ last.partial)
(* the deviation never goes with the errors that are raised before any effect *)
C19EarlyErrorsClean == last.pre /\ last.err \in {"ASTNodeDuplicateChildrenError", "ASTNodeIDCollisionError", "ASTNodeReplaceError"} => last.same

(* the visitor works on a detached clone of an attached receiver and replaces only on success: a failed transformation
   of an attached node from a consistent state changes nothing *)
C19VisitorAtomic == last.pre /\ last.op = "tvisit" /\ last.att /\ last.err # "" => last.same

(* export: the witness program of every transition TLC takes *)
Emit == PrintT(ToJson([m |-> "legacy-script", prog |-> hist']))
=============================================================================
